package props

import (
	"encoding/json"
	"fmt"
	"math/rand/v2"
	"os"
	"runtime"
	"sort"
	"strconv"
	"strings"
	"sync"
	"time"

	"github.com/mikefarah/yq/v4/pkg/yqlib"

	"verifharness/mon"
	"verifharness/yqx"
)

// expression text -> pool entries using it (one parsed tree serves all of them)
var (
	c18ExprKeys   []string
	c18ByExpr     = map[string][]int{}
	c18ExprEnvOpt = map[string]bool{}
	c18ExprLoad   = map[string]bool{}
	// expressions with at least one entry evaluated through the kept-tree path (stream evaluator over files)
	c18HasTreeEntry = map[string]bool{}
)

func init() {
	for _, e := range c18Pool {
		if _, ok := c18ByExpr[e.Expr]; !ok {
			c18ExprKeys = append(c18ExprKeys, e.Expr)
		}
		c18ByExpr[e.Expr] = append(c18ByExpr[e.Expr], e.ID)
		if len(e.Files) > 0 && !e.All {
			c18HasTreeEntry[e.Expr] = true
		}
		if e.EnvOpt {
			c18ExprEnvOpt[e.Expr] = true
		}
		if e.Load != "" && e.Load != "str" {
			c18ExprLoad[e.Expr] = true
		}
	}
}

// c18PickExprs draws n distinct expression texts; envOpt/load say whether expressions of the two
// quarantined kinds (known defects) may appear, and force a few of them in when they may.
func c18PickExprs(r *rand.Rand, n int, envOpt, load bool) []string {
	seen := map[string]bool{}
	var out []string
	take := func(x string) {
		if !seen[x] {
			seen[x] = true
			out = append(out, x)
		}
	}
	if envOpt {
		for i := 0; i < 3; i++ {
			take(c18Pool[c18EnvOptIx[r.IntN(len(c18EnvOptIx))]].Expr)
		}
		take(`with(envsubst)`)
		take(`.delta |= envsubst`)
	}
	if load {
		for i := 0; i < 4; i++ {
			take(c18Pool[c18LoadIx[r.IntN(len(c18LoadIx))]].Expr)
		}
	}
	for tries := 0; len(out) < n && tries < 10*n+100; tries++ {
		x := c18ExprKeys[r.IntN(len(c18ExprKeys))]
		if (c18ExprEnvOpt[x] && !envOpt) || (c18ExprLoad[x] && !load) {
			continue
		}
		take(x)
	}
	return out
}

func c18EntriesOf(exprs []string) []int {
	var ids []int
	for _, x := range exprs {
		ids = append(ids, c18ByExpr[x]...)
	}
	return ids
}

func c18FmtTags(ids map[int]bool) []string {
	seen := map[string]bool{}
	for id := range ids {
		e := &c18Pool[id]
		seen["in:"+e.In] = true
		seen["out:"+e.Out] = true
		if e.All {
			seen["mode:eval-all"] = true
		} else if len(e.Files) == 0 {
			seen["mode:null-input"] = true
		} else if len(e.Files) > 1 {
			seen["mode:two-files"] = true
		}
	}
	var out []string
	for t := range seen {
		out = append(out, t)
	}
	sort.Strings(out)
	return out
}

// ---------------------------------------------------------------------------------------------
// O1 repeat
// ---------------------------------------------------------------------------------------------

var c18RepeatFlags = [][]string{nil, nil, nil, {"-P"}, {"-I4"}, {"-N"}, {"-e"}, {"-I0"}, {"--xml-skip-proc-inst"}, {"--properties-array-brackets"},
	{"--csv-auto-parse=false"}, {"--lua-globals"}, {"-0"}, {"--string-interpolation=false"}, {"-v"}}

type c18RepeatCase struct {
	Family string   `json:"family"`
	Entry  c18Entry `json:"entry"`
	Argv   []string `json:"argv"`
	Env    []string `json:"env"`
	Runs   int      `json:"runs"`
}

func c18RunRepeat(w *mon.Worker, idx int) mon.Result {
	r := w.Rand(idx)
	var e c18Entry
	extra := c18RepeatFlags[r.IntN(len(c18RepeatFlags))]
	// the j-th repeat case of a run walks the core list; what is left of the run's repeat cases is drawn at random
	nRepeat := (c18{}.Cases(w.Tier) + c18Stride(w.Tier) - 1) / c18Stride(w.Tier)
	if w.Tier == "thorough" {
		nRepeat = c18{}.Cases(w.Tier) / 5
	}
	j := idx / c18Stride(w.Tier)
	nCore := min(len(c18RepeatCore), nRepeat*19/20)
	switch {
	case j < nCore:
		// consecutive core entries, the starting point rotated by the seed (a quick run covers 190 of them)
		off := int(((w.Seed%1000)+1000)%1000) * 61
		e = c18Pool[c18RepeatCore[(j+off)%len(c18RepeatCore)]]
		if j%4 != 0 {
			extra = nil
		}
	case r.IntN(10) < 7:
		e = c18Pool[c18MapHeavy[r.IntN(len(c18MapHeavy))]]
	default:
		e = c18Pool[r.IntN(len(c18Pool))]
	}
	verbose := len(extra) == 1 && extra[0] == "-v"
	var argv []string
	if r.IntN(3) == 0 {
		// default unwrap behaviour (no explicit flag)
		argv = c18Argv(w.YqBin(), &e, true, extra...)
		for i, a := range argv {
			if strings.HasPrefix(a, "--unwrapScalar=") {
				argv = append(argv[:i:i], argv[i+1:]...)
				break
			}
		}
	} else {
		argv = c18Argv(w.YqBin(), &e, r.IntN(2) == 0, extra...)
	}
	c := c18RepeatCase{Family: "repeat", Entry: e, Argv: argv[1:], Env: c18Env, Runs: 5}
	res := mon.Result{Case: c, Sig: fmt.Sprintf("R|%x", hashStr(strings.Join(argv[1:], "\x00"))),
		Tags: append([]string{"fam:repeat", "in:" + e.In, "out:" + e.Out, "flags:" + strings.Join(extra, " ")}, c18OpTags(map[string]bool{e.Expr: true})...)}
	var first c18Ref
	for i := 0; i < c.Runs; i++ {
		got := c18RunArgv(w, argv)
		res.Evals++
		if got.TimedOut {
			res.Verdict, res.Detail = mon.Inconclusive, "binary timed out"
			return res
		}
		if verbose {
			// -v prints the debug log (time stamps, pointers): only stdout and the exit status are comparable
			got.Stderr = ""
		}
		if i == 0 {
			first = got
			continue
		}
		if got != first && c18TruncSuspect(got, first) {
			// same failing exit status and one capture is a prefix of the other: the runner lost output
			res.Verdict, res.Detail = mon.Inconclusive, "captured output of a failing run was cut short by the runner"
			return res
		}
		if got != first {
			res.Verdict = mon.Violated
			res.Nontrivial = true
			res.Detail = fmt.Sprintf("run 1 and run %d of the same command differ\n  argv: %q\n  run 1: %s\n  run %d: %s", i+1, argv[1:], first, i+1, got)
			return res
		}
	}
	res.Verdict = mon.Held
	res.Nontrivial = first.Stdout != ""
	if first.Exit != 0 {
		res.Tags = append(res.Tags, "result:error")
	} else {
		res.Tags = append(res.Tags, "result:ok")
	}
	res.Detail = "5 identical runs: " + first.String()
	return res
}

func c18TruncSuspect(a, b c18Ref) bool {
	pre := func(x, y string) bool { return strings.HasPrefix(x, y) || strings.HasPrefix(y, x) }
	return a.Exit == b.Exit && a.Exit != 0 && pre(a.Stdout, b.Stdout) && pre(a.Stderr, b.Stderr)
}

// ---------------------------------------------------------------------------------------------
// O2 history
// ---------------------------------------------------------------------------------------------

type c18Step struct {
	Entry int  `json:"e"`
	Fresh bool `json:"fresh,omitempty"` // parse the expression again instead of using the kept tree
}

type c18HistCase struct {
	Family   string     `json:"family"`
	Unwrap   bool       `json:"unwrap_scalar"`
	Share    c18Share   `json:"share"`
	EnvOpt   bool       `json:"envsubst_options_in_sequence"`
	Exprs    []string   `json:"expressions"`
	Steps    []c18Step  `json:"steps"` // indices into the pool
	FailStep *int       `json:"failing_step,omitempty"`
	FailEnt  *c18Entry  `json:"failing_entry,omitempty"`
	Before   []c18Entry `json:"steps_before_failure,omitempty"`
}

func c18GenHist(w *mon.Worker, idx int) c18HistCase {
	r := w.Rand(idx)
	c := c18HistCase{Family: "history"}
	c.Unwrap = r.IntN(2) == 0
	c.Share = c18Share{Tree: r.IntN(5) != 0, Dec: r.IntN(4) != 0, Enc: r.IntN(4) != 0, Printer: r.IntN(2) == 0}
	c.EnvOpt = r.IntN(2) == 0
	c.Exprs = c18PickExprs(r, 8+r.IntN(12), c.EnvOpt, true)
	ids := c18EntriesOf(c.Exprs)
	n := 120
	if w.Tier == "thorough" {
		n = 160
	}
	if r.IntN(2) == 0 {
		// the first thing an eval-all decoder of this history sees is an input without a document
		// (comment-only / empty file), the next thing an ordinary one
		var noDoc, plain []int
		for _, e := range c18Pool {
			if !e.All || e.In != "yaml" {
				continue
			}
			last := e.Files[len(e.Files)-1]
			if last == "d_cmt.yaml" || last == "d_empty.yaml" {
				noDoc = append(noDoc, e.ID)
			} else if e.Files[0] != "d_cmt.yaml" && e.Files[0] != "d_empty.yaml" {
				plain = append(plain, e.ID)
			}
		}
		if len(noDoc) > 0 && len(plain) > 0 {
			c.Steps = append(c.Steps, c18Step{Entry: noDoc[r.IntN(len(noDoc))]}, c18Step{Entry: plain[r.IntN(len(plain))]})
		}
	}
	for i := len(c.Steps); i < n; i++ {
		st := c18Step{Entry: ids[r.IntN(len(ids))]}
		if i > 0 && r.IntN(4) == 0 {
			// same expression again on another document / output format: the kept tree is evaluated again
			prev := c18Pool[c.Steps[i-1].Entry].Expr
			sib := c18ByExpr[prev]
			st.Entry = sib[r.IntN(len(sib))]
		}
		st.Fresh = r.IntN(6) == 0
		c.Steps = append(c.Steps, st)
	}
	return c
}

func c18RunHistory(w *mon.Worker, idx int) mon.Result {
	c := c18GenHist(w, idx)
	c18Configure(c.Unwrap)
	base := c18st.pristine[c.Unwrap]
	res := mon.Result{Tags: []string{"fam:history", fmt.Sprintf("share:tree=%v,dec=%v,enc=%v,printer=%v", c.Share.Tree, c.Share.Dec, c.Share.Enc, c.Share.Printer)}}
	seqHash := hashStr(fmt.Sprint(c.Unwrap, c.Share, c.Steps))
	res.Sig = fmt.Sprintf("H|%x", seqHash)
	defer c18RestoreEnvsubst()

	if d := c18GlobalDiff(base, c18TakeSnap()); len(d) > 0 {
		// state left behind by an earlier case of this process that the restore could not undo
		res.Case, res.Verdict = c, mon.Violated
		res.Detail = "global state at the start of the case differs from the state at process start: " + strings.Join(d, "; ")
		return res
	}
	objs := c18NewObjs()
	distinct := map[int]bool{}
	exprs := map[string]bool{}
	lastFP := base.FP
	var lastDiff []string
	fpChecks := 0
	findings := map[string]int{}
	var findingNotes []string
	note := func(id, s string) {
		findings[id]++
		if len(findingNotes) < 4 {
			findingNotes = append(findingNotes, id+": "+s)
		}
	}
	fail := func(i int, why string) mon.Result {
		c.FailStep = &i
		e := c18Pool[c.Steps[i].Entry]
		c.FailEnt = &e
		for j := max(0, i-6); j < i; j++ {
			c.Before = append(c.Before, c18Pool[c.Steps[j].Entry])
		}
		res.Case, res.Verdict, res.Nontrivial = c, mon.Violated, true
		res.Detail = why
		return res
	}
	for i, st := range c.Steps {
		e := &c18Pool[st.Entry]
		ref := c18RefFor(w, e, c.Unwrap)
		if ref.TimedOut {
			res.Case, res.Verdict, res.Detail = c, mon.Inconclusive, "reference run of the binary timed out"
			return res
		}
		sh := c.Share
		if st.Fresh {
			sh.Tree = false
		}
		got := c18EvalInProc(e, objs, sh)
		res.Evals++
		distinct[st.Entry] = true
		exprs[e.Expr] = true
		if !c18Same(got, ref) {
			if ok, name := c18ExplainedByEnvsubstType(e, got, ref); ok && name == c18CurrentEnvsubstType() {
				note("C18-envsubst-optype-mutation", fmt.Sprintf("step %d `%s`: fresh process says %q, after this history %q", i, e.Expr, strings.TrimSpace(ref.Stderr), got.Err))
			} else if c18ExplainedByStaleFinished(w, e, got, c.Unwrap) {
				note("C18-decoder-init-keeps-finished", fmt.Sprintf("step %d `%s` -p=%s: alone %s, with a re-used decoder %s (= the -n answer)", i, e.Expr, e.In, ref, got))
			} else if c18ExplainedByFirstFileFlag(e, got) {
				note("C18-eval-all-yaml-decoder-remembers-first-file", fmt.Sprintf("step %d `%s` files=%v: alone %s, with a re-used eval-all decoder %s", i, e.Expr, e.Files, ref, got))
			} else {
				return fail(i, fmt.Sprintf("step %d of the sequence gives a different answer than the same evaluation alone in a fresh process\n  entry: %s -p=%s -o=%s files=%v eval_all=%v (shared: %+v, fresh parse: %v)\n  alone (real binary): %s\n  in sequence:         %s",
					i, e.Expr, e.In, e.Out, e.Files, e.All, sh, st.Fresh, ref, got))
			}
		}
		fpChecks++
		if fp := yqlib.VerifGlobalFingerprint(); fp != base.FP {
			if fp != lastFP {
				lastFP = fp
				lastDiff = c18GlobalDiff(base, c18TakeSnap())
			}
			if c18OnlyEnvsubstType(lastDiff) {
				note("C18-envsubst-optype-mutation", fmt.Sprintf("after step %d `%s`: %s", i, e.Expr, lastDiff[0]))
			} else {
				return fail(i, fmt.Sprintf("process-global state changed by step %d (`%s`): %s", i, e.Expr, strings.Join(lastDiff, "; ")))
			}
		} else {
			lastFP = fp
		}
	}
	res.Case = c
	res.Nontrivial = len(distinct) >= 2
	res.Tags = append(res.Tags, c18FmtTags(distinct)...)
	res.Tags = append(res.Tags, c18OpTags(exprs)...)
	res.Tags = append(res.Tags, "entries:"+c18Bucket(len(distinct)))
	res.Tags = append(res.Tags, c18Repeat("fp_checks(x10)", fpChecks/10)...)
	res.Tags = append(res.Tags, c18Repeat("tree_reuse(x10)", objs.treeReuse/10)...)
	res.Tags = append(res.Tags, c18Repeat("decoder_reuse(x10)", objs.decReuse/10)...)
	res.Tags = append(res.Tags, c18Repeat("encoder_reuse(x10)", objs.encReuse/10)...)
	res.Tags = append(res.Tags, c18Repeat("printer_reuse(x10)", objs.prReuse/10)...)
	res.Detail = fmt.Sprintf("%d steps over %d distinct entries (%d expressions); parses=%d tree re-use=%d decoder re-use=%d encoder re-use=%d printer re-use=%d; %d fingerprint checks",
		len(c.Steps), len(distinct), len(exprs), objs.parses, objs.treeReuse, objs.decReuse, objs.encReuse, objs.prReuse, fpChecks)
	if len(findings) > 0 {
		c18SetFinding(&res, findings, findingNotes)
		return res
	}
	res.Verdict = mon.Held
	return res
}

// c18SetFinding turns a case whose only deviations are known ones into a Finding result. A result carries one
// finding id: the first in a fixed order; every id observed is tagged.
func c18SetFinding(res *mon.Result, findings map[string]int, notes []string) {
	ids := make([]string, 0, len(findings))
	for id := range findings {
		ids = append(ids, id)
	}
	sort.Strings(ids)
	res.Verdict, res.FindingID = mon.Finding, ids[0]
	for _, id := range ids {
		res.Tags = append(res.Tags, "finding:"+id)
	}
	res.Detail += "\nknown deviations observed: " + fmt.Sprint(findings) + "\n  " + strings.Join(notes, "\n  ")
}

// ---------------------------------------------------------------------------------------------
// O3 schedules
// ---------------------------------------------------------------------------------------------

type c18Plan struct {
	Share c18Share  `json:"share"`
	Parse []string  `json:"parse_first"` // expressions parsed right after the barrier (all goroutines parse at the same time)
	Steps []c18Step `json:"steps"`
}

type c18SchedCase struct {
	Family string    `json:"family"`
	G      int       `json:"goroutines"`
	P      int       `json:"gomaxprocs"`
	Mode   string    `json:"mode"` // strict | envopt | load
	Unwrap bool      `json:"unwrap_scalar"`
	Exprs  []string  `json:"expressions"`
	Plans  []c18Plan `json:"plans"`
	Fail   any       `json:"failure,omitempty"`
}

var c18GP = [9][2]int{{2, 1}, {4, 2}, {16, 16}, {2, 16}, {4, 1}, {16, 2}, {2, 2}, {4, 16}, {16, 1}}

func c18SchedMode(w *mon.Worker, idx int) string { return c18GenSched(w, idx).Mode }

func c18GenSched(w *mon.Worker, idx int) c18SchedCase {
	r := w.Rand(idx)
	gp := c18GP[(idx/c18Stride(w.Tier))%9]
	c := c18SchedCase{Family: "schedules", G: gp[0], P: gp[1]}
	switch r.IntN(8) {
	case 0:
		c.Mode = "envopt"
	case 1:
		c.Mode = "load"
	default:
		c.Mode = "strict"
	}
	c.Unwrap = r.IntN(2) == 0
	// Budget: under -race one parse costs ~29 ms and an evaluation of a kept tree ~0.5 ms, so every goroutine gets
	// a parse budget (G x budget ~ 36-64 parses per case whatever G is) and many cheap evaluations of kept trees.
	budget := 2 + 32/c.G
	nList := budget * 2 / 3
	nFresh := budget - nList
	nCheap := 30 + 120/c.G
	switch c.Mode {
	case "envopt":
		nCheap /= 2 // every race report costs the race runtime milliseconds: keep the quarantined cases small
	case "load":
		nCheap = 8
	}
	// working set: expressions with at least one entry that runs through the kept-tree path
	for _, x := range c18PickExprs(r, 3*nList+8, c.Mode == "envopt", c.Mode == "load") {
		if c18HasTreeEntry[x] {
			c.Exprs = append(c.Exprs, x)
		}
	}
	var hot []string // the quarantined expressions: where the known defects live
	for _, x := range c.Exprs {
		if c.Mode != "strict" && (c18ExprEnvOpt[x] || c18ExprLoad[x] || x == `with(envsubst)`) {
			hot = append(hot, x)
		}
	}
	all := c18EntriesOf(c.Exprs)
	for g := 0; g < c.G; g++ {
		pl := c18Plan{Share: c18Share{Tree: true, Dec: r.IntN(2) == 0, Enc: r.IntN(2) == 0, Printer: r.IntN(2) == 0}}
		perm := r.Perm(len(c.Exprs))
		for _, k := range perm[:min(nList, len(perm))] {
			pl.Parse = append(pl.Parse, c.Exprs[k])
		}
		if len(hot) > 0 {
			// every goroutine parses two of them
			for _, k := range r.Perm(len(hot))[:min(2, len(hot))] {
				if !containsStr(pl.Parse, hot[k]) {
					pl.Parse = append(pl.Parse, hot[k])
				}
			}
			r.Shuffle(len(pl.Parse), func(i, j int) { pl.Parse[i], pl.Parse[j] = pl.Parse[j], pl.Parse[i] })
		}
		var own []int
		for _, id := range c18EntriesOf(pl.Parse) {
			if e := &c18Pool[id]; len(e.Files) > 0 && !e.All {
				own = append(own, id)
			}
		}
		for i := 0; i < nCheap; i++ {
			pl.Steps = append(pl.Steps, c18Step{Entry: own[r.IntN(len(own))]})
		}
		for i := 0; i < nFresh; i++ {
			// parse afresh (any entry of the working set, eval-all and null-input included) while the others evaluate
			pl.Steps = append(pl.Steps, c18Step{Entry: all[r.IntN(len(all))], Fresh: true})
		}
		r.Shuffle(len(pl.Steps), func(i, j int) { pl.Steps[i], pl.Steps[j] = pl.Steps[j], pl.Steps[i] })
		c.Plans = append(c.Plans, pl)
	}
	return c
}

func containsStr(xs []string, x string) bool {
	for _, y := range xs {
		if y == x {
			return true
		}
	}
	return false
}

type c18Ev struct {
	Entry      int // -1 = parse only
	Expr       string
	Out        c18Out
	Start, End int64
}

// c18RunIsolated runs one schedules case in a child worker process of its own. Used for mode=load: goroutines
// sharing the load decoders corrupt each other's parser state, which can kill the process or leave damaged memory
// behind; the cases that follow in this worker must not inherit that.
func c18RunIsolated(w *mon.Worker, idx int, c c18SchedCase) mon.Result {
	res := mon.Result{Case: c, Sig: fmt.Sprintf("S|isolated|%d", idx), Tags: []string{"fam:schedules", "mode:" + c.Mode, "isolated_child"}}
	exe, err := os.Executable()
	if err != nil {
		res.Verdict, res.Detail = mon.Inconclusive, "os.Executable: "+err.Error()
		return res
	}
	env := append(os.Environ(), "C18_INNER=1", "C18_CACHE="+c18st.cacheDir, "VERIF_SCRATCH="+w.Scratch)
	out := mon.Run(mon.RunOpts{Dir: w.Scratch, Env: env, CPUSecs: 120, Wall: 240 * time.Second},
		exe, "worker", "C18", w.Tier, strconv.FormatInt(w.Seed, 10), strconv.Itoa(idx), strconv.Itoa(idx+1), "1")
	if out.TimedOut {
		res.Verdict, res.Detail = mon.Inconclusive, "isolated child timed out (wall clock)"
		return res
	}
	hang := false
	for _, ln := range strings.Split(string(out.Stdout), "\n") {
		if strings.HasPrefix(ln, "H ") {
			hang = true
		}
		if strings.HasPrefix(ln, "R ") {
			var r mon.Result
			if json.Unmarshal([]byte(ln[2:]), &r) == nil {
				r.Tags = append(r.Tags, "isolated_child")
				return r
			}
		}
	}
	// the child died on the case
	stderr := string(out.Stderr)
	switch {
	case strings.Contains(stderr, yqPkg+"loadWithDecoder"):
		res.Verdict, res.FindingID = mon.Finding, "C18-load-shared-decoder"
		res.Nontrivial = true
		res.Tags = append(res.Tags, "finding:C18-load-shared-decoder", "child_died")
		msg := ""
		if m := c18FatalRe.FindStringSubmatch(stderr); m != nil {
			msg = m[1]
		}
		res.Detail = "the process running this case died (" + msg + ") with loadWithDecoder on the stack: goroutines share the load decoder\n" + clipStr(stderr, 1500)
	case hang:
		res.Verdict = mon.Inconclusive
		res.Tags = append(res.Tags, "child_cpu_budget_exceeded")
		res.Detail = "the child process running this case exceeded its CPU budget; not decided"
	default:
		res.Verdict = mon.Inconclusive
		res.Detail = fmt.Sprintf("isolated child ended without a result (exit %d signal %d)\n%s", out.Exit, out.Signal, clipStr(stderr, 1500))
	}
	return res
}

func c18RunSchedules(w *mon.Worker, idx int) mon.Result {
	c := c18GenSched(w, idx)
	// load-mode cases always, and in the race build a quarter of all cases, run in a process of their own:
	// caches and lazily initialised globals are cold there, so the first concurrent use of anything
	// process-global happens under the race detector many times per run instead of once per worker
	if (c.Mode == "load" || (w.Race && idx%12 == 2)) && os.Getenv("C18_INNER") == "" {
		return c18RunIsolated(w, idx, c)
	}
	c18Configure(c.Unwrap)
	base := c18st.pristine[c.Unwrap]
	res := mon.Result{Tags: []string{"fam:schedules", fmt.Sprintf("G:%d", c.G), fmt.Sprintf("P:%d", c.P), fmt.Sprintf("GxP:%dx%d", c.G, c.P), "mode:" + c.Mode}}
	res.Sig = fmt.Sprintf("S|%x", hashStr(fmt.Sprint(c.G, c.P, c.Mode, c.Unwrap, c.Plans)))
	if w.Race {
		res.Tags = append(res.Tags, "race_detector_on")
	}
	defer c18RestoreEnvsubst()
	if d := c18GlobalDiff(base, c18TakeSnap()); len(d) > 0 {
		res.Case, res.Verdict = c, mon.Violated
		res.Detail = "global state at the start of the case differs from the state at process start: " + strings.Join(d, "; ")
		return res
	}
	// fresh answers first (sequentially, real binary)
	distinct := map[int]bool{}
	exprs := map[string]bool{}
	for _, pl := range c.Plans {
		for _, st := range pl.Steps {
			if !distinct[st.Entry] {
				distinct[st.Entry] = true
				exprs[c18Pool[st.Entry].Expr] = true
				if ref := c18RefFor(w, &c18Pool[st.Entry], c.Unwrap); ref.TimedOut {
					res.Case, res.Verdict, res.Detail = c, mon.Inconclusive, "reference run of the binary timed out"
					return res
				}
			}
		}
	}
	_ = c18NewRaceBlocks(w) // anything logged before this case is not this case's

	// run: nothing below touches shared harness memory until wg.Wait()
	events := make([][]c18Ev, c.G)
	start := make(chan struct{})
	var wg sync.WaitGroup
	t0 := time.Now()
	prevP := runtime.GOMAXPROCS(c.P)
	for g := 0; g < c.G; g++ {
		wg.Add(1)
		go func(g int) {
			defer wg.Done()
			pl := c.Plans[g]
			evs := make([]c18Ev, 0, len(pl.Parse)+len(pl.Steps))
			objs := c18NewObjs()
			<-start
			for _, x := range pl.Parse {
				ev := c18Ev{Entry: -1, Expr: x, Start: int64(time.Since(t0))}
				var node *yqlib.ExpressionNode
				var err error
				ev.Out.Pan = yqx.Guard(func() { node, err = yqlib.ExpressionParser.ParseExpression(x) })
				if err == nil && ev.Out.Pan == nil && node != nil {
					objs.trees[x] = node
				}
				ev.End = int64(time.Since(t0))
				evs = append(evs, ev)
			}
			for _, st := range pl.Steps {
				e := &c18Pool[st.Entry]
				sh := pl.Share
				if st.Fresh {
					sh.Tree = false
				}
				ev := c18Ev{Entry: st.Entry, Expr: e.Expr, Start: int64(time.Since(t0))}
				ev.Out = c18EvalInProc(e, objs, sh)
				ev.End = int64(time.Since(t0))
				evs = append(evs, ev)
			}
			events[g] = evs
		}(g)
	}
	close(start)
	wg.Wait()
	runtime.GOMAXPROCS(prevP)

	// overlap evidence: distinct (entry A of one goroutine, entry B of another) whose executions overlapped in time
	type iv struct {
		g, entry   int
		start, end int64
		load       string
	}
	var ivs []iv
	parseOverlaps := 0
	for g, evs := range events {
		for _, ev := range evs {
			res.Evals++
			ld := ""
			if ev.Entry >= 0 {
				ld = c18Pool[ev.Entry].Load
			}
			ivs = append(ivs, iv{g, ev.Entry, ev.Start, ev.End, ld})
		}
	}
	sort.Slice(ivs, func(i, j int) bool { return ivs[i].start < ivs[j].start })
	pairs := map[[2]int]bool{}
	// for the load matcher: per goroutine+start, the load kinds of evaluations of OTHER goroutines overlapping it
	overlapLoad := map[[2]int64]string{}
	var active []iv
	for _, x := range ivs {
		keep := active[:0]
		for _, a := range active {
			if a.end > x.start {
				keep = append(keep, a)
			}
		}
		active = keep
		for _, a := range active {
			if a.g == x.g {
				continue
			}
			if a.entry < 0 || x.entry < 0 {
				parseOverlaps++
				continue
			}
			p := [2]int{a.entry, x.entry}
			if p[0] > p[1] {
				p[0], p[1] = p[1], p[0]
			}
			pairs[p] = true
			if a.load != "" && x.load != "" {
				overlapLoad[[2]int64{int64(x.g), x.start}] += "," + a.load
				overlapLoad[[2]int64{int64(a.g), a.start}] += "," + x.load
			}
		}
		active = append(active, x)
	}

	res.Tags = append(res.Tags, "overlap_pairs:"+c18Bucket(len(pairs)), "parse_overlaps:"+c18Bucket(parseOverlaps))
	res.Tags = append(res.Tags, c18FmtTags(distinct)...)
	res.Tags = append(res.Tags, c18OpTags(exprs)...)
	res.Tags = append(res.Tags, c18Repeat("overlap_pairs(x10)", len(pairs)/10)...)
	res.Nontrivial = len(pairs) >= 1
	summary := fmt.Sprintf("G=%d GOMAXPROCS=%d mode=%s: %d evaluations + %d parses over %d distinct entries; %d distinct (entry A, entry B) pairs overlapped in time across goroutines, %d overlaps involving a parse",
		c.G, c.P, c.Mode, c.G*len(c.Plans[0].Steps), res.Evals-c.G*len(c.Plans[0].Steps), len(distinct), len(pairs), parseOverlaps)

	fail := func(what any, why string) mon.Result {
		c.Fail = what
		res.Case, res.Verdict, res.Nontrivial = c, mon.Violated, true
		res.Detail = why + "\n" + summary
		return res
	}
	findings := map[string]int{}
	var notes []string
	note := func(id, s string) {
		findings[id]++
		if len(notes) < 4 {
			notes = append(notes, id+": "+s)
		}
	}

	// 1. global state after the join
	fpDiff := c18GlobalDiff(base, c18TakeSnap())
	if len(fpDiff) > 0 {
		if c.Mode == "envopt" && c18OnlyEnvsubstType(fpDiff) {
			note("C18-envsubst-optype-mutation", fpDiff[0])
		} else {
			return fail(map[string]any{"global_diff": fpDiff}, "process-global state changed by the concurrent run: "+strings.Join(fpDiff, "; "))
		}
	}
	// 2. every result equals the fresh sequential answer
	for g, evs := range events {
		for k, ev := range evs {
			if ev.Entry < 0 {
				if ev.Out.Pan != nil {
					return fail(map[string]any{"goroutine": g, "expr": ev.Expr}, fmt.Sprintf("panic while parsing `%s` concurrently: %s\n%s", ev.Expr, ev.Out.Pan.Value, clipStr(ev.Out.Pan.Stack, 1500)))
				}
				continue
			}
			e := &c18Pool[ev.Entry]
			ref := c18RefFor(w, e, c.Unwrap)
			if c18Same(ev.Out, ref) {
				continue
			}
			if ok, _ := c18ExplainedByEnvsubstType(e, ev.Out, ref); ok && c.Mode == "envopt" {
				note("C18-envsubst-optype-mutation", fmt.Sprintf("`%s`: alone %q, concurrently %q", e.Expr, strings.TrimSpace(ref.Stderr), ev.Out.Err))
				continue
			}
			if c18ExplainedByStaleFinished(w, e, ev.Out, c.Unwrap) {
				note("C18-decoder-init-keeps-finished", fmt.Sprintf("`%s` -p=%s: alone %s, with a re-used decoder %s (= the -n answer)", e.Expr, e.In, ref, ev.Out))
				continue
			}
			if c18ExplainedByFirstFileFlag(e, ev.Out) {
				note("C18-eval-all-yaml-decoder-remembers-first-file", fmt.Sprintf("`%s` files=%v: alone %s, with a re-used eval-all decoder %s", e.Expr, e.Files, ref, ev.Out))
				continue
			}
			if c.Mode == "load" && e.Load != "" && e.Load != "str" {
				ol := overlapLoad[[2]int64{int64(g), ev.Start}]
				shared := false
				for _, k := range strings.Split(e.Load, ",") {
					if k != "str" && strings.Contains(ol+",", ","+k+",") {
						shared = true
					}
				}
				if shared {
					note("C18-load-shared-decoder", fmt.Sprintf("`%s`: alone %s, while another goroutine was inside the same load decoder %s", e.Expr, ref, ev.Out))
					continue
				}
			}
			return fail(map[string]any{"goroutine": g, "event": k, "entry": *e},
				fmt.Sprintf("goroutine %d, evaluation %d gives a different answer than the same evaluation alone\n  entry: %s -p=%s -o=%s files=%v eval_all=%v\n  alone (real binary): %s\n  concurrently:        %s",
					g, k, e.Expr, e.In, e.Out, e.Files, e.All, ref, ev.Out))
		}
	}
	// 3. race reports this case produced in this process (race build only)
	blocks := c18NewRaceBlocks(w)
	if len(blocks) > 0 {
		res.Tags = append(res.Tags, c18Repeat("race_report", len(blocks))...)
	}
	for _, blk := range blocks {
		v, id := c18{}.ClassifyRace(mon.RaceKey(blk), blk)
		switch v {
		case mon.Finding:
			acc := c18ParseRace(blk)
			s := ""
			if len(acc) >= 2 && len(acc[0].Frames) > 0 && len(acc[1].Frames) > 0 {
				s = acc[0].Frames[0] + " x " + acc[1].Frames[0]
			}
			note(id, "data race "+strings.ReplaceAll(s, yqPkg, ""))
			res.Tags = append(res.Tags, "race_known:"+id)
		case mon.Violated:
			return fail(map[string]any{"race": clipStr(blk, 4000)}, "the Go race detector reported a data race involving yq code during this case:\n"+clipStr(blk, 5000))
		default:
			res.Tags = append(res.Tags, "race_outside_yq")
		}
	}
	res.Case = c
	res.Detail = summary
	if len(findings) > 0 {
		c18SetFinding(&res, findings, notes)
		return res
	}
	res.Verdict = mon.Held
	return res
}
