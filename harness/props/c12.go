package props

import (
	"bytes"
	"fmt"
	"math/rand/v2"
	"os"
	"path/filepath"
	"regexp"
	"sort"
	"strconv"
	"strings"
	"syscall"
	"time"

	"verifharness/mon"
)

// C12 — `yq -i` is all-or-nothing: the file holds the old content or the complete new content.
//
// Technique: syscall-level fault and crash injection on the REAL binary. For one (command, file)
// pair and one placement of TMPDIR a recording run lists the syscalls of the in-place protocol
// (everything that touches TMPDIR, the temporary files, the target or a second input file, plus
// exit_group). Every such syscall occurrence then gets, in its own run, each plausible errno (the
// call is skipped and returns the errno) and a SIGKILL on entry (the kernel aborts the call, i.e.
// the process dies between the previous step and this one) — the two mechanisms of
// `strace -e inject=<syscall>:error=<E>:when=<N>` / `:signal=SIGKILL:when=<N>`.
//
// The injector is the small ptrace tracer in c12_ptrace_linux_amd64.go, not strace itself:
// strace counts `when=N` per thread, and the Go scheduler moves yq's main goroutine between
// threads (observed in ~25 % of the runs under load, always for large files), so a strace
// injection lands on the wrong call or on none. The tracer counts "the k-th call of kind
// write(outtemp)" over all threads and tampers only with calls whose path/fd role belongs to the
// protocol, so no fault can land on the Go runtime's own start-up calls. strace is still used in
// every case as an independent recorder: its log of the fault-free command must show the same
// protocol (same kinds, same results, same order) as the tracer's, else the case is inconclusive.
// Where a fault landed is read from the tracer's log of that very run — never predicted. The oracle
// looks only at the outcome: exit status, bytes and permission bits of the target afterwards.
type c12 struct{}

func init() { mon.Register(c12{}) }

const (
	c12Slices          = 5 // 4 slices of the single-fault plan + 1 variant slice
	c12FindRename      = "C12-rename-fallback-truncates-target"
	c12FindFMNoResult  = "C12-front-matter-body-dropped-on-empty-result"
	c12FindJSONRead    = "C12-json-read-error-treated-as-eof"
	c12QuickClasses    = 16
	c12QuickPairs      = 16
	c12ThoroughPairs   = 126 // 21 classes x 6
	c12StraceBin       = "/usr/bin/strace"
	c12TraceSetLiteral = "execve,openat,?open,newfstatat,?stat,?lstat,fstat,statx,fchmodat,fchmod,fchownat,fchown,?chmod,?chown," +
		"read,pread64,write,pwrite64,copy_file_range,sendfile,?splice,fsync,fdatasync,close,renameat,renameat2,?rename," +
		"unlinkat,?unlink,ftruncate,mkdirat,?mkdir,linkat,symlinkat,exit_group"
)

func (c12) ID() string    { return "C12" }
func (c12) Level() string { return "fault_enumeration" }
func (c12) Rule() string {
	return "case idx = (pair, TMPDIR placement {same fs | other fs => genuine EXDEV}, slice 0..4). pair = (eval|eval-all, flags, expression, file(s), mode) from 16 (quick) / 21 (thorough) classes " +
		"(small/large/multi-doc/format-changing/two-file/eval-all/JSON/XML/CSV/properties edits, front matter with hostile trailing bytes (CRLF, inner ---, NUL/0xFF bytes, no final newline, > 4 KiB), " +
		"parse error, decode error in document k>1, evaluation error (also in document k>1 after output was produced), encoder error, -e without match, front matter with empty result). " +
		"Per case: the same command without -i gives expected-new; one plain `-i` run (default environment, untraced); one recording run under the ptrace tracer and one under strace (must agree) " +
		"list the protocol syscalls (path/fd role in {tmpdir, outtemp, fmtemp, target, input2} or exit_group); slices 0-3 each take a quarter of the plan " +
		"{protocol syscall occurrence (read/write of large files sampled: first two, middle, last two, PRNG picks)} x {errnos plausible for that syscall, SIGKILL on entry}; " +
		"slice 4 = double faults: an injected rename error (EXDEV/EACCES/EPERM/EIO/ENOSPC) followed by every fault on every step of the copy fallback (same fs, successful pairs), " +
		"or the TMPDIR-does-not-exist variant (mkdir path). Oracle per run: exit 0 => target == expected-new and permission bits unchanged; exit != 0 => target bytes and mode == before; " +
		"killed by the injected SIGKILL => target == old or == new in full; --front-matter=process => new content ends with the original bytes after the front matter; " +
		"a second input file is never modified. A run is judged only if every fault it carried landed on a protocol syscall according to the tracer's log of that run. " +
		"A deviation is a known finding only if its matcher (trace pattern + exact outcome) holds for that run, otherwise a violation. " +
		"A case is inconclusive if a planned protocol syscall received no landed fault; the whole run is inconclusive if a recorded protocol syscall kind was never hit. " +
		"Non-trivial = at least one injected fault landed on a protocol syscall; distinct by hash(pair, fs, slice). evaluations = executions of the real yq binary."
}
func (c12) Assumptions() []string {
	return []string{
		"fault model = strace's: an injected errno means the call is not executed and returns the errno; SIGKILL injected at syscall entry kills the process before the call executes (ptrace_report_syscall_entry aborts on a fatal signal). Partial effects of a failing call (short write then error), a disk that stays full, and power loss (unsynced page cache) are not modelled",
		"the tracer is trusted to decode x86-64 syscalls; it is cross-checked against strace's log of the same fault-free command in every case",
		"traced runs set GOMAXPROCS=1 (fewer runtime threads to stop); one additional untraced run per case uses the default environment",
		"a leaked temporary file, ownership, timestamps and the inode number are not part of the property; a permission change seen only after a kill is tagged, not judged",
		"the harness user may read and write the files it creates with modes 0600..0777; permission errors are injected, not provoked",
	}
}
func (c12) Cases(tier string) int {
	if tier == "thorough" {
		return c12ThoroughPairs * 2 * c12Slices
	}
	return c12QuickPairs * 2 * c12Slices
}
func (c12) RaceCases(tier string) int { return 0 }
func (c12) Floor(tier string) int {
	if tier == "thorough" {
		return c12ThoroughPairs * 2 * c12Slices * 8 / 10
	}
	return c12QuickPairs * 2 * c12Slices * 8 / 10
}

// ---- workload ---------------------------------------------------------------------------

type c12File struct {
	Name    string
	Content []byte
}

type c12Pair struct {
	Class string
	Cmd   string   // "" = default (eval), "ea" = eval-all
	Flags []string // output / front-matter / -e flags
	Expr  string
	Files []c12File // Files[0] is the in-place target
	Mode  os.FileMode
	Rest  []byte // --front-matter=process: the bytes after the front matter (nil otherwise)
	Link  bool   // the target is a symbolic link to a regular file next to it
}

var c12Classes = []string{
	"edit_small", "edit_large", "front_matter", "multi_doc", "eval_all_merge", "parse_error",
	"decode_error_doc_k", "eval_error", "encoder_error", "exit_status_nomatch", "format_change", "front_matter_noresult",
	"front_matter_ea", "json_file", "long_line", "symlink_target",
	// thorough only
	"two_files_eval", "front_matter_misc", "eval_error_doc_k", "other_format_file", "json_large",
}

// quick tier: includes group/other-writable modes, which a umask silently strips when a file is re-created instead of chmod-ed
var c12Modes4 = []os.FileMode{0o644, 0o664, 0o600, 0o775, 0o640, 0o666}
var c12ModesAll = []os.FileMode{0o644, 0o600, 0o755, 0o640, 0o664, 0o660, 0o700, 0o666, 0o777, 0o750}

var c12Words = []string{"alpha", "bravo", "charlie", "delta", "echo", "foxtrot", "golf", "hotel", "india", "juliet", "kilo", "lima"}

func c12Word(r *rand.Rand) string { return c12Words[r.IntN(len(c12Words))] }

func c12Doc(r *rand.Rand) string {
	var sb strings.Builder
	if r.IntN(2) == 0 {
		fmt.Fprintf(&sb, "# settings %d\n", r.IntN(1000))
	}
	fmt.Fprintf(&sb, "a: %d\n", r.IntN(1000))
	fmt.Fprintf(&sb, "b:\n  c: %s\n  d: [1, 2, %d]\n", c12Word(r), r.IntN(100))
	fmt.Fprintf(&sb, "list:\n  - %d\n  - %d # trailing comment\n", r.IntN(100), r.IntN(100))
	fmt.Fprintf(&sb, "s: \"%s %s\"\n", c12Word(r), c12Word(r))
	n := r.IntN(6)
	for i := 0; i < n; i++ {
		switch r.IntN(3) {
		case 0:
			fmt.Fprintf(&sb, "k%d: %d\n", i, r.IntN(100000))
		case 1:
			fmt.Fprintf(&sb, "k%d: %s\n", i, c12Word(r))
		default:
			fmt.Fprintf(&sb, "k%d: {x: %d, y: [%s, %s]}\n", i, r.IntN(10), c12Word(r), c12Word(r))
		}
	}
	return sb.String()
}

// c12EditExpr returns an expression that succeeds on c12Doc documents and changes them.
func c12EditExpr(r *rand.Rand) string {
	v := 7000000 + r.IntN(1000000)
	switch r.IntN(10) {
	case 0:
		return fmt.Sprintf(".a = %d", v)
	case 1:
		return fmt.Sprintf(".b.c = \"%s-%d\"", c12Word(r), v)
	case 2:
		return fmt.Sprintf(".list += [%d]", v)
	case 3:
		return "del(.s)"
	case 4:
		return fmt.Sprintf(".a |= . + %d", v)
	case 5:
		return fmt.Sprintf(". * {\"added\": {\"k\": %d}}", v)
	case 6:
		return fmt.Sprintf(".list[0] = %d", v)
	case 7:
		return fmt.Sprintf("with(.b; .e = %d)", v)
	case 8:
		return fmt.Sprintf(".b.d[1] = \"two\" | .a += %d", v)
	default:
		return fmt.Sprintf(".new.deep.key = %d", v)
	}
}

func c12LargeDoc(r *rand.Rand) string {
	var sb strings.Builder
	n := 2500 + r.IntN(300) // >= 200 KiB of output, i.e. >= 50 write(2) calls of 4 KiB
	fmt.Fprintf(&sb, "meta: {rev: %d, owner: %s}\nitems:\n", r.IntN(100), c12Word(r))
	pad := strings.Repeat("x", 24+r.IntN(12))
	for i := 0; i < n; i++ {
		fmt.Fprintf(&sb, "  - id: %d\n    name: item-%d-%s\n    tags: [a, b, c]\n", i, i, pad)
	}
	return sb.String()
}

func c12FrontMatter(r *rand.Rand) string {
	var sb strings.Builder
	if r.IntN(4) != 0 {
		sb.WriteString("---\n")
	}
	fmt.Fprintf(&sb, "title: %s %s\ntags: [%s, %s]\ncount: %d\n", c12Word(r), c12Word(r), c12Word(r), c12Word(r), r.IntN(50))
	if r.IntN(2) == 0 {
		fmt.Fprintf(&sb, "author:\n  name: %s\n", c12Word(r))
	}
	return sb.String()
}

// c12RestBytes builds the text after the front matter. It starts with the closing `---` line and
// then carries whatever a Markdown / template file may carry. all=true forces every hostile feature.
func c12RestBytes(r *rand.Rand, all bool) []byte {
	var b bytes.Buffer
	b.WriteString("---")
	switch r.IntN(4) {
	case 0:
		b.WriteString("\r\n")
	case 1:
		b.WriteString(" \n")
	default:
		b.WriteString("\n")
	}
	segs := [][]byte{
		[]byte("# Heading\n\nbody text line\n"),
		[]byte("crlf line one\r\ncrlf line two\r\n"),
		[]byte("---\n"),
		[]byte("--- inner marker\nkey: value # looks like yaml\n"),
		[]byte("bin\x00\x01\x02\xff\xfe\x80 bytes\n"),
		[]byte("\t tabs \t and trailing spaces   \n"),
		[]byte("\n\n\n"),
		[]byte("é ü 日本語 😀\n"),
		[]byte("{{ template \"x\" . }} ${VAR} $(cmd) `tick`\n"),
		[]byte("...\n"),
		[]byte("lone cr\rmiddle\n"),
	}
	long := bytes.Repeat([]byte("lorem ipsum dolor sit amet, consectetur adipiscing elit\n"), 90+r.IntN(60)) // > 4 KiB
	if all {
		for _, i := range r.Perm(len(segs)) {
			b.Write(segs[i])
		}
		b.Write(long)
		b.WriteString("---\r\nlast line without newline")
		return b.Bytes()
	}
	n := r.IntN(7)
	for i := 0; i < n; i++ {
		b.Write(segs[r.IntN(len(segs))])
	}
	if r.IntN(3) == 0 {
		b.Write(long)
	}
	switch r.IntN(4) {
	case 0:
		b.WriteString("no final newline")
	case 1:
		b.WriteString("ends with cr\r")
	case 2:
		b.WriteString("\xff")
	}
	return b.Bytes()
}

func c12MultiDoc(r *rand.Rand, n int) string {
	var sb strings.Builder
	for i := 0; i < n; i++ {
		if i > 0 {
			sb.WriteString("---\n")
		}
		fmt.Fprintf(&sb, "a: %d\nname: %s\n", r.IntN(100), c12Word(r))
		if r.IntN(2) == 0 {
			fmt.Fprintf(&sb, "opts: [%d, %d]\n", r.IntN(9), r.IntN(9))
		}
	}
	return sb.String()
}

func c12GenPair(r *rand.Rand, pairNo int, tier string, seed int64) c12Pair {
	nclass := c12QuickClasses
	if tier == "thorough" {
		nclass = len(c12Classes)
	}
	class := c12Classes[pairNo%nclass]
	p := c12Pair{Class: class}
	if tier == "thorough" {
		p.Mode = c12ModesAll[r.IntN(len(c12ModesAll))]
	} else {
		p.Mode = c12Modes4[(pairNo+int(uint64(seed)%6))%len(c12Modes4)]
	}
	yamlFile := func(s string) c12File { return c12File{"doc.yaml", []byte(s)} }
	switch class {
	case "edit_small":
		p.Files = []c12File{yamlFile(c12Doc(r))}
		p.Expr = c12EditExpr(r)
	case "edit_large":
		p.Files = []c12File{yamlFile(c12LargeDoc(r))}
		if r.IntN(2) == 0 {
			p.Expr = fmt.Sprintf(".meta.rev = %d", 7000000+r.IntN(1000))
		} else {
			p.Expr = fmt.Sprintf(".items[%d].name = \"renamed-%d\"", r.IntN(2000), r.IntN(1000))
		}
	case "front_matter":
		p.Rest = c12RestBytes(r, tier != "thorough" || r.IntN(3) == 0)
		p.Files = []c12File{{"post.md", append([]byte(c12FrontMatter(r)), p.Rest...)}}
		p.Flags = []string{"--front-matter=process"}
		switch r.IntN(3) {
		case 0:
			p.Expr = fmt.Sprintf(".title = \"%s %d\"", c12Word(r), 7000000+r.IntN(1000))
		case 1:
			p.Expr = fmt.Sprintf(".count += %d", 7000000+r.IntN(1000))
		default:
			p.Expr = fmt.Sprintf(".tags += [\"new-%d\"]", r.IntN(1000))
		}
	case "multi_doc":
		p.Files = []c12File{yamlFile(c12MultiDoc(r, 3+r.IntN(3)))}
		if r.IntN(2) == 0 {
			p.Expr = fmt.Sprintf(".a += %d", 7000000+r.IntN(1000))
		} else {
			p.Expr = fmt.Sprintf(".name = \"%s-%d\"", c12Word(r), r.IntN(1000))
		}
		if r.IntN(3) == 0 {
			p.Cmd = "ea"
		}
	case "eval_all_merge":
		p.Cmd = "ea"
		p.Files = []c12File{yamlFile(c12Doc(r)), {"other.yaml", []byte(fmt.Sprintf("a: %d\nextra: {x: %d}\nlist: [%d]\n", 7000000+r.IntN(1000), r.IntN(10), r.IntN(10)))}}
		p.Expr = "select(fi == 0) * select(fi == 1)"
	case "parse_error":
		p.Files = []c12File{yamlFile(c12Doc(r))}
		p.Expr = []string{".a[", ".a = (", ".[", "{", ".a as", ") .a", ".a | (.b", ".list[1:", "\"unterminated"}[r.IntN(9)]
		if r.IntN(3) == 0 {
			p.Cmd = "ea"
		}
	case "decode_error_doc_k":
		n := 3 + r.IntN(3)
		k := 1 + r.IntN(n-1) // 0-based index of the broken document, never the first
		bad := []string{"b: [1, 2\n", "key: 'unterminated\n", "a: b: c\n", "\tx: 1\n", "a: &x 1\nb: *unknown\n", "? [\n", "x: {y: 1\n"}[r.IntN(7)]
		var sb strings.Builder
		for i := 0; i < n; i++ {
			if i > 0 {
				sb.WriteString("---\n")
			}
			if i == k {
				sb.WriteString(bad)
			} else {
				fmt.Fprintf(&sb, "a: %d\nname: %s\n", r.IntN(100), c12Word(r))
			}
		}
		p.Files = []c12File{yamlFile(sb.String())}
		p.Expr = []string{".a = 5", ".", ".name = \"z\""}[r.IntN(3)]
	case "eval_error":
		p.Files = []c12File{yamlFile(c12Doc(r))}
		p.Expr = []string{".a + {}", ".a | keys", ".b | split(\",\")", "error(\"boom\")", ".list[0] / \"x\"", ".a = 1 | .a | keys"}[r.IntN(6)]
		if r.IntN(3) == 0 {
			p.Cmd = "ea"
		}
	case "eval_error_doc_k":
		// the first document evaluates (and is printed to the temporary), a later one fails
		p.Files = []c12File{yamlFile(fmt.Sprintf("a: {x: %d}\nn: 1\n---\na: {y: 2}\nn: 2\n---\na: %d\nn: 3\n---\na: {z: 3}\nn: 4\n", r.IntN(10), r.IntN(10)))}
		p.Expr = []string{".a |= keys", ".n += 100 | .a |= keys", ".a.q = 1"}[r.IntN(3)]
	case "encoder_error":
		p.Files = []c12File{yamlFile(c12Doc(r))}
		fe := [][2]string{{"-o=csv", "."}, {"-o=xml", ".list"}, {"-o=tsv", "[.]"}, {"-o=base64", "."}, {"-o=toml", "."}, {"-o=uri", ".b"}}[r.IntN(6)]
		p.Flags, p.Expr = []string{fe[0]}, fe[1]
	case "exit_status_nomatch":
		p.Files = []c12File{yamlFile(c12Doc(r))}
		p.Flags = []string{"-e"}
		p.Expr = []string{".nomatch", ".list[] | select(. > 100000)", ".b.nothing.here"}[r.IntN(3)]
	case "format_change":
		p.Files = []c12File{yamlFile(c12Doc(r))}
		fe := [][]string{{"-o=json", ""}, {"-P", "."}, {"-o=props", "."}, {"-I4", ""}, {"-o=json", "-I0", ""}, {"-o=xml", "del(.list) | del(.b.d)"}}[r.IntN(6)]
		p.Flags, p.Expr = fe[:len(fe)-1], fe[len(fe)-1]
		if p.Expr == "" {
			p.Expr = c12EditExpr(r)
		}
	case "front_matter_noresult":
		p.Rest = c12RestBytes(r, false)
		p.Files = []c12File{{"post.md", append([]byte(c12FrontMatter(r)), p.Rest...)}}
		p.Flags = []string{"--front-matter=process"}
		p.Expr = []string{"select(.draft == true)", "select(.count > 100000)", ".tags[] | select(. == \"nonexistent-tag\")"}[r.IntN(3)]
		if r.IntN(3) == 0 {
			p.Cmd = "ea"
		}
	case "front_matter_ea":
		p.Cmd = "ea"
		p.Rest = c12RestBytes(r, tier != "thorough" || r.IntN(3) == 0)
		p.Files = []c12File{{"post.md", append([]byte(c12FrontMatter(r)), p.Rest...)}}
		p.Flags = []string{"--front-matter=process"}
		p.Expr = fmt.Sprintf(".title = \"ea %d\" | .count += 1", 7000000+r.IntN(1000))
	case "json_large":
		var sb strings.Builder
		sb.WriteString("{\"meta\": {\"rev\": 1}, \"items\": [")
		n := 300 + r.IntN(300)
		for i := 0; i < n; i++ {
			if i > 0 {
				sb.WriteString(", ")
			}
			fmt.Fprintf(&sb, "{\"id\": %d, \"name\": \"item-%d-%s\"}", i, i, c12Word(r))
		}
		sb.WriteString("]}\n")
		p.Files = []c12File{{"data.json", []byte(sb.String())}}
		p.Expr = fmt.Sprintf(".meta.rev = %d", 7000000+r.IntN(1000))
	case "other_format_file":
		switch r.IntN(5) {
		case 0:
			p.Files = []c12File{{"data.xml", []byte(fmt.Sprintf("<?xml version=\"1.0\"?>\n<root><a>%d</a><b><c>%s</c></b></root>\n", r.IntN(100), c12Word(r)))}}
			p.Expr = fmt.Sprintf(".root.a = \"%d\"", 7000000+r.IntN(1000))
		case 1:
			p.Files = []c12File{{"app.properties", []byte(fmt.Sprintf("# comment\na = %d\nb.c = %s\n", r.IntN(100), c12Word(r)))}}
			p.Expr = fmt.Sprintf(".a = %d", 7000000+r.IntN(1000))
		case 2:
			p.Files = []c12File{{"t.csv", []byte(fmt.Sprintf("name,n\n%s,%d\n%s,2\n", c12Word(r), r.IntN(100), c12Word(r)))}}
			p.Expr = fmt.Sprintf(".[0].n = %d", 7000000+r.IntN(1000))
		case 3:
			p.Files = []c12File{{"t.tsv", []byte(fmt.Sprintf("name\tn\n%s\t%d\n", c12Word(r), r.IntN(100)))}}
			p.Expr = fmt.Sprintf(".[0].n = %d", 7000000+r.IntN(1000))
		default:
			p.Files = []c12File{{"c.toml", []byte(fmt.Sprintf("a = %d\n[b]\nc = \"%s\"\n", r.IntN(100), c12Word(r)))}}
			p.Expr = ".a = 2" // the TOML encoder refuses maps: an encoder error
		}
	case "front_matter_misc":
		p.Rest = c12RestBytes(r, false)
		p.Files = []c12File{{"post.md", append([]byte(c12FrontMatter(r)), p.Rest...)}}
		p.Flags = []string{"--front-matter=process"}
		switch r.IntN(4) {
		case 0:
			p.Cmd, p.Expr = "ea", fmt.Sprintf(".title = \"ea %d\"", 7000000+r.IntN(1000))
		case 1:
			p.Expr = ".title | keys" // evaluation error
		case 2:
			p.Flags = append(p.Flags, "-e")
			p.Expr = ".nomatch"
		default:
			p.Flags = append(p.Flags, "-o=json")
			p.Expr = fmt.Sprintf(".count = %d", 7000000+r.IntN(1000))
		}
	case "two_files_eval":
		p.Files = []c12File{yamlFile(c12Doc(r)), {"other.yaml", []byte(c12Doc(r))}}
		p.Expr = c12EditExpr(r)
	case "long_line":
		// a line longer than any reader buffer comes first and stays as it is; what the edit changes comes after it
		blob := strings.Repeat(c12Word(r)[:1], 4090+r.IntN(5000))
		if r.IntN(2) == 0 {
			p.Files = []c12File{yamlFile(fmt.Sprintf("blob: %s\n", blob) + c12Doc(r))}
			p.Expr = c12EditExpr(r)
		} else {
			p.Files = []c12File{{"data.json", []byte(fmt.Sprintf("{\"blob\":\"%s\",\"a\":%d,\"list\":[1,2],\"s\":\"%s\",\"b\":{\"c\":\"x\",\"d\":[1,2,3]}}\n", blob, r.IntN(100), c12Word(r)))}}
			p.Flags = []string{"-o=json", "-I0"}
			p.Expr = c12EditExpr(r)
		}
	case "symlink_target":
		p.Files = []c12File{yamlFile(c12Doc(r))}
		p.Expr = c12EditExpr(r)
		p.Link = true
	case "json_file":
		p.Files = []c12File{{"data.json", []byte(fmt.Sprintf("{\"a\": %d, \"b\": {\"c\": \"%s\", \"d\": [1, 2, 3]}, \"list\": [4, 5], \"s\": \"%s\"}\n", r.IntN(100), c12Word(r), c12Word(r)))}}
		p.Expr = c12EditExpr(r)
	}
	return p
}

func (p *c12Pair) argv(inplace bool, paths []string) []string {
	var a []string
	if p.Cmd != "" {
		a = append(a, p.Cmd)
	}
	if inplace {
		a = append(a, "-i")
	}
	a = append(a, p.Flags...)
	a = append(a, "--expression", p.Expr) // --expression: the text is never mistaken for a flag or a file
	a = append(a, paths...)
	return a
}

func (p *c12Pair) describe() map[string]any {
	var files []map[string]any
	for _, f := range p.Files {
		files = append(files, map[string]any{"name": f.Name, "bytes": len(f.Content), "content": clipStr(strconv.Quote(string(f.Content)), 700)})
	}
	d := map[string]any{"class": p.Class, "cmd": p.Cmd, "flags": p.Flags, "expr": p.Expr, "files": files, "mode": fmt.Sprintf("%04o", p.Mode)}
	if p.Rest != nil {
		d["bytes_after_front_matter"] = len(p.Rest)
	}
	if p.Link {
		d["target_is_symlink_to"] = "real/" + p.Files[0].Name
	}
	return d
}

// ---- strace log ---------------------------------------------------------------------------

type c12Ev struct {
	Tid      int
	Name     string
	Args     string // raw argument text (strace logs only)
	Path     string
	Path2    string
	Fd       int // -1 = none; for copy calls the source
	Fd2      int // destination of copy calls
	Flags    string
	NoFollow bool
	Ret      string
	RetN     int64
	Errno    string
	Inj      bool   // errno injected
	KillHere bool   // SIGKILL injected on entry
	Role     string // tmpdir | outtemp | fmtemp | tempN | target | input2 | exit | other
	Kind     string // e.g. openat(outtemp,create)  renameat(outtemp->target)  write(outtemp)
	Proto    bool
	OccT     int // occurrence of Name within Tid, 1-based (strace's when=)
	OccK     int // occurrence of Kind in global order, 1-based
}

type c12Trace struct {
	Evs      []c12Ev
	MainTid  int
	Exited   bool
	ExitCode int
	Killed   string // signal name when the main thread was killed
	Unparsed []string
}

var (
	c12ReLine = regexp.MustCompile(`^(\d+)\s+(.*)$`)
	c12ReCall = regexp.MustCompile(`^([a-z_0-9]+)\((.*)\)\s*= (\?|-?\d+|0x[0-9a-f]+)(?: ([A-Z][A-Z0-9]+) \(.*?\))?( \(INJECTED\))?$`)
	c12ReExit = regexp.MustCompile(`^\+\+\+ exited with (\d+) \+\+\+$`)
	c12ReKill = regexp.MustCompile(`^\+\+\+ killed by (SIG[A-Z0-9]+)`)
	c12ReStr  = regexp.MustCompile(`"((?:[^"\\]|\\.)*)"`)
	c12ReFd   = regexp.MustCompile(`^(\d+)\b`)
)

func c12ParseLog(b []byte) *c12Trace {
	t := &c12Trace{MainTid: -1}
	pending := map[int]string{}
	var order []int
	add := func(tid int, rest string) {
		m := c12ReCall.FindStringSubmatch(rest)
		if m == nil {
			t.Unparsed = append(t.Unparsed, rest)
			return
		}
		e := c12Ev{Tid: tid, Name: m[1], Args: m[2], Ret: m[3], Errno: m[4], Inj: m[5] != "", RetN: -1}
		if n, err := strconv.ParseInt(m[3], 0, 64); err == nil {
			e.RetN = n
		}
		t.Evs = append(t.Evs, e)
	}
	for _, ln := range strings.Split(string(b), "\n") {
		if ln == "" {
			continue
		}
		m := c12ReLine.FindStringSubmatch(ln)
		if m == nil {
			t.Unparsed = append(t.Unparsed, ln)
			continue
		}
		tid, _ := strconv.Atoi(m[1])
		rest := m[2]
		if t.MainTid < 0 {
			t.MainTid = tid
		}
		switch {
		case strings.HasPrefix(rest, "+++ "):
			if tid == t.MainTid {
				if x := c12ReExit.FindStringSubmatch(rest); x != nil {
					t.Exited = true
					t.ExitCode, _ = strconv.Atoi(x[1])
				} else if x := c12ReKill.FindStringSubmatch(rest); x != nil {
					t.Killed = x[1]
				}
			}
		case strings.HasPrefix(rest, "--- "):
			// signal delivery (SIGURG preemption …)
		case strings.HasSuffix(rest, "<unfinished ...>"):
			pending[tid] = strings.TrimSuffix(rest, "<unfinished ...>")
			order = append(order, tid)
		case strings.HasPrefix(rest, "<... "):
			i := strings.Index(rest, " resumed>")
			if i < 0 {
				t.Unparsed = append(t.Unparsed, rest)
				continue
			}
			add(tid, strings.TrimRight(pending[tid], " ")+rest[i+len(" resumed>"):])
			delete(pending, tid)
		default:
			add(tid, rest)
		}
	}
	// calls that never returned (process killed inside them)
	for _, tid := range order {
		if p, ok := pending[tid]; ok {
			delete(pending, tid)
			if i := strings.IndexByte(p, '('); i > 0 {
				t.Evs = append(t.Evs, c12Ev{Tid: tid, Name: p[:i], Args: strings.TrimRight(p[i+1:], " "), Ret: "?", RetN: -1})
			}
		}
	}
	return t
}

var c12Injectable = map[string]bool{
	"openat": true, "open": true, "newfstatat": true, "stat": true, "lstat": true, "fstat": true, "statx": true,
	"fchmodat": true, "fchmod": true, "chmod": true, "fchownat": true, "fchown": true, "chown": true,
	"read": true, "pread64": true, "write": true, "pwrite64": true, "copy_file_range": true, "sendfile": true, "splice": true,
	"fsync": true, "fdatasync": true, "close": true, "renameat": true, "renameat2": true, "rename": true,
	"unlinkat": true, "unlink": true, "ftruncate": true, "mkdirat": true, "mkdir": true, "linkat": true, "symlinkat": true,
}

func c12IsRename(n string) bool { return n == "renameat" || n == "renameat2" || n == "rename" }

// c12Roles holds the paths that define the roles.
type c12Roles struct {
	Target string
	Input2 string
	TmpDir string
}

// c12Tracker assigns roles and kinds to syscalls in the order they happen. classify is called
// when the call is entered (its result may be tentative for a creating openat), commit when it
// returned.
type c12Tracker struct {
	ro    c12Roles
	rdfd  map[int]bool // fds opened O_RDONLY
	fds   map[int]string
	temps map[string]string
	ntemp int
	occT  map[string]int
	occK  map[string]int
}

func newC12Tracker(ro c12Roles) *c12Tracker {
	return &c12Tracker{ro: ro, rdfd: map[int]bool{}, fds: map[int]string{}, temps: map[string]string{}, occT: map[string]int{}, occK: map[string]int{}}
}

func (k *c12Tracker) tempName() string {
	switch k.ntemp {
	case 0:
		return "outtemp"
	case 1:
		return "fmtemp"
	}
	return fmt.Sprintf("temp%d", k.ntemp+1)
}

func (k *c12Tracker) pathRole(p string, creating bool) string {
	switch {
	case p == k.ro.Target:
		return "target"
	case k.ro.Input2 != "" && p == k.ro.Input2:
		return "input2"
	case p == k.ro.TmpDir:
		return "tmpdir"
	case p == filepath.Dir(k.ro.Target):
		// the directory that holds the target: a step on it (open, fsync of the directory) belongs to the protocol
		return "targetdir"
	case strings.HasPrefix(p, k.ro.TmpDir+"/"):
		if r, seen := k.temps[p]; seen {
			return r
		}
		if creating {
			return k.tempName()
		}
		return "temp?"
	}
	return "other"
}

func (k *c12Tracker) fdRole(fd int) string {
	if r, ok := k.fds[fd]; ok {
		return r
	}
	return "other"
}

func (k *c12Tracker) classify(e *c12Ev) {
	tk := strconv.Itoa(e.Tid) + "/" + e.Name
	k.occT[tk]++
	e.OccT = k.occT[tk]
	e.Role, e.Kind = "other", ""
	switch e.Name {
	case "openat", "open":
		creating := strings.Contains(e.Flags, "O_CREAT") && strings.Contains(e.Flags, "O_EXCL")
		e.Role = k.pathRole(e.Path, creating)
		q := "rd"
		switch {
		case creating:
			q = "create"
		case strings.Contains(e.Flags, "O_TRUNC"):
			q = "trunc"
		case strings.Contains(e.Flags, "O_WRONLY") || strings.Contains(e.Flags, "O_RDWR"):
			q = "wr"
		}
		e.Kind = e.Name + "(" + e.Role + "," + q + ")"
	case "renameat", "renameat2", "rename", "linkat":
		a, b := k.pathRole(e.Path, false), k.pathRole(e.Path2, false)
		e.Role = a
		if a == "other" {
			e.Role = b
		}
		e.Kind = e.Name + "(" + a + "->" + b + ")"
	case "newfstatat", "stat", "lstat", "statx":
		if e.Path != "" {
			e.Role = k.pathRole(e.Path, false)
		} else {
			e.Role = k.fdRole(e.Fd)
		}
		if e.NoFollow {
			e.Kind = e.Name + "(" + e.Role + ",nofollow)"
		}
	case "fchmodat", "fchmodat2", "fchownat", "unlinkat", "mkdirat", "unlink", "mkdir", "chmod", "chown", "symlinkat":
		e.Role = k.pathRole(e.Path, false)
	case "read", "pread64", "write", "pwrite64", "fsync", "fdatasync", "fstat", "fchmod", "fchown", "ftruncate":
		e.Role = k.fdRole(e.Fd)
	case "close":
		e.Role = k.fdRole(e.Fd)
		if k.rdfd[e.Fd] && e.Role != "other" {
			// yq never closes its input files itself: the Go finalizer does, at an arbitrary moment
			// (or never). A close of a read-only descriptor is recorded but is not a protocol step.
			e.Kind = "close(" + e.Role + ",rdonly)"
		}
	case "copy_file_range", "splice", "sendfile":
		a, b := k.fdRole(e.Fd), k.fdRole(e.Fd2)
		e.Role = b
		if b == "other" {
			e.Role = a
		}
		e.Kind = e.Name + "(" + a + "->" + b + ")"
	case "exit_group":
		e.Role, e.Kind = "exit", "exit_group"
	}
	if e.Kind == "" {
		e.Kind = e.Name + "(" + e.Role + ")"
	}
	e.Proto = (e.Role != "other" && c12Injectable[e.Name] && !strings.HasSuffix(e.Kind, ",rdonly)")) || e.Name == "exit_group"
	k.occK[e.Kind]++
	e.OccK = k.occK[e.Kind]
}

func (k *c12Tracker) commit(e *c12Ev) {
	ok := e.RetN >= 0 && !e.Inj && !e.KillHere && e.Ret != "?"
	switch e.Name {
	case "openat", "open":
		if !ok {
			return
		}
		if strings.HasPrefix(e.Path, k.ro.TmpDir+"/") {
			if _, seen := k.temps[e.Path]; !seen && strings.Contains(e.Flags, "O_CREAT") && strings.Contains(e.Flags, "O_EXCL") {
				k.temps[e.Path] = e.Role
				k.ntemp++
			}
		}
		k.fds[int(e.RetN)] = e.Role
		k.rdfd[int(e.RetN)] = strings.HasPrefix(e.Flags, "O_RDONLY")
	case "close":
		if ok && e.RetN == 0 {
			delete(k.fds, e.Fd)
			delete(k.rdfd, e.Fd)
		}
	}
}

// structure fills Path/Fd/Flags of an event parsed from a strace log line.
func (e *c12Ev) structure(cwd string) {
	e.Fd, e.Fd2 = -1, -1
	var paths []string
	for _, m := range c12ReStr.FindAllStringSubmatch(e.Args, -1) {
		paths = append(paths, m[1])
	}
	abs := func(p string) string {
		if p != "" && !strings.HasPrefix(p, "/") {
			return cwd + "/" + p
		}
		return p
	}
	firstFd := func(s string) int {
		if m := c12ReFd.FindStringSubmatch(strings.TrimSpace(s)); m != nil {
			n, _ := strconv.Atoi(m[1])
			return n
		}
		return -1
	}
	parts := strings.Split(e.Args, ", ")
	switch e.Name {
	case "openat", "open":
		if len(paths) > 0 {
			e.Path = abs(paths[0])
		}
		for _, q := range parts {
			if strings.HasPrefix(q, "O_") {
				e.Flags = q
				break
			}
		}
	case "renameat", "renameat2", "rename", "linkat":
		if len(paths) >= 2 {
			e.Path, e.Path2 = abs(paths[0]), abs(paths[1])
		}
	case "newfstatat", "stat", "lstat", "statx":
		if len(paths) > 0 && paths[0] != "" {
			e.Path = abs(paths[0])
		} else {
			e.Fd = firstFd(e.Args)
		}
		e.NoFollow = strings.Contains(e.Args, "AT_SYMLINK_NOFOLLOW") || e.Name == "lstat"
	case "fchmodat", "fchmodat2", "fchownat", "unlinkat", "mkdirat", "unlink", "mkdir", "chmod", "chown":
		if len(paths) > 0 {
			e.Path = abs(paths[0])
		}
	case "symlinkat":
		if len(paths) > 1 {
			e.Path = abs(paths[1])
		}
	case "read", "pread64", "write", "pwrite64", "fsync", "fdatasync", "fstat", "fchmod", "fchown", "ftruncate", "close":
		e.Fd = firstFd(e.Args)
	case "copy_file_range", "splice":
		if len(parts) >= 3 {
			e.Fd, e.Fd2 = firstFd(parts[0]), firstFd(parts[2])
		}
	case "sendfile":
		if len(parts) >= 2 {
			e.Fd, e.Fd2 = firstFd(parts[1]), firstFd(parts[0])
		}
	}
}

// assign gives roles to the events of a parsed strace log.
func (t *c12Trace) assign(ro c12Roles, cwd string) {
	k := newC12Tracker(ro)
	for i := range t.Evs {
		e := &t.Evs[i]
		e.structure(cwd)
		k.classify(e)
		k.commit(e)
	}
}

// fallbackEngaged is the trace pattern of the known finding: the rename of the output
// temporary onto the target returned an error and afterwards the target was successfully opened
// with O_TRUNC.
func (t *c12Trace) fallbackEngaged() bool {
	renErr := false
	for i := range t.Evs {
		e := &t.Evs[i]
		if c12IsRename(e.Name) && strings.HasSuffix(e.Kind, "(outtemp->target)") && e.Errno != "" && e.RetN < 0 {
			renErr = true
		}
		if renErr && (e.Name == "openat" || e.Name == "open") && e.Role == "target" && strings.Contains(e.Flags, "O_TRUNC") && e.RetN >= 0 && !e.Inj {
			return true
		}
	}
	return false
}

// faultsOnlyInFallback: every injected fault of the run is either the rename error itself or
// landed after the fallback had opened the target with O_TRUNC. A fault that landed earlier
// (while reading, evaluating, writing the temporary) must have stopped yq before the rename; if
// the target is damaged all the same, the fallback is not the explanation.
func (t *c12Trace) faultsOnlyInFallback() bool {
	renErr, trunc := false, false
	for i := range t.Evs {
		e := &t.Evs[i]
		isRen := c12IsRename(e.Name) && strings.HasSuffix(e.Kind, "(outtemp->target)")
		if (e.Inj || e.KillHere) && !trunc && !(isRen && e.Inj) {
			return false
		}
		if isRen && e.Errno != "" && e.RetN < 0 {
			renErr = true
		}
		if renErr && (e.Name == "openat" || e.Name == "open") && e.Role == "target" && strings.Contains(e.Flags, "O_TRUNC") && e.RetN >= 0 && !e.Inj {
			trunc = true
		}
	}
	return trunc
}

func (t *c12Trace) protoSummary(max int) string {
	var sb strings.Builder
	n := 0
	for i := range t.Evs {
		e := &t.Evs[i]
		if !e.Proto {
			continue
		}
		n++
		if n > max {
			sb.WriteString(" …")
			break
		}
		sb.WriteString(" " + e.Kind + "=" + e.Ret)
		if e.Errno != "" {
			sb.WriteString(":" + e.Errno)
		}
		if e.Inj {
			sb.WriteString("!")
		}
	}
	return sb.String()
}

// ---- fault table ------------------------------------------------------------------------

func c12Errnos(e *c12Ev, tier string) []string {
	var l []string
	switch e.Name {
	case "openat", "open":
		switch {
		case strings.HasSuffix(e.Kind, ",create)"):
			l = []string{"EACCES", "ENOSPC", "EINTR", "EMFILE"}
		case strings.HasSuffix(e.Kind, ",trunc)"):
			l = []string{"EACCES", "EIO", "ENOSPC", "EINTR"}
		default:
			l = []string{"EACCES", "EIO", "EINTR", "EMFILE"}
		}
	case "newfstatat", "stat", "lstat", "statx", "fstat":
		if e.Role == "tmpdir" {
			l = []string{"EACCES", "ENOENT", "EIO"}
		} else {
			l = []string{"EACCES", "EIO", "ENOENT"}
		}
	case "fchmodat", "fchmod", "chmod", "fchownat", "fchown", "chown":
		l = []string{"EPERM", "EIO"}
	case "read", "pread64":
		l = []string{"EIO", "EINTR"}
	case "write", "pwrite64":
		l = []string{"ENOSPC", "EIO", "EINTR", "EDQUOT"}
	case "copy_file_range", "sendfile", "splice":
		l = []string{"ENOSPC", "EIO", "EINTR", "EXDEV"}
	case "fsync", "fdatasync":
		l = []string{"EIO", "ENOSPC"}
	case "close":
		l = []string{"EIO", "EINTR"}
	case "renameat", "renameat2", "rename", "linkat":
		return []string{"EXDEV", "EACCES", "EPERM", "EIO", "ENOSPC"} // every tier: "any rename error"
	case "unlinkat", "unlink":
		l = []string{"EACCES", "EPERM", "EIO"}
	case "ftruncate":
		l = []string{"EIO", "EPERM"}
	case "mkdirat", "mkdir":
		l = []string{"EACCES", "ENOSPC", "EEXIST"}
	case "symlinkat":
		l = []string{"EACCES", "EIO"}
	}
	if tier != "thorough" && len(l) > 2 {
		l = l[:2]
	}
	return l
}

// c12Inject addresses one syscall of the protocol: the Occ-th call of kind Kind in global order.
type c12Inject struct {
	Kind  string
	Occ   int
	Errno string // "" = SIGKILL on entry
	Name  string // syscall name and per-thread occurrence in the recording: the strace equivalent
	When  int    // (`strace -e inject=Name:…:when=When`) as long as the call stays on that thread
}

func (i c12Inject) arg() string {
	return fmt.Sprintf("%s#%d:%s", i.Kind, i.Occ, i.fault())
}
func (i c12Inject) straceArg() string {
	if i.Errno == "" {
		return fmt.Sprintf("inject=%s:signal=SIGKILL:when=%d", i.Name, i.When)
	}
	return fmt.Sprintf("inject=%s:error=%s:when=%d", i.Name, i.Errno, i.When)
}
func (i c12Inject) fault() string {
	if i.Errno == "" {
		return "SIGKILL"
	}
	return i.Errno
}

type c12Item struct {
	EvIdx int // index into the recording's event list
	Kind  string
	OccK  int
	Inj   c12Inject
}

// c12Plan enumerates (protocol event, fault) over the recording; events of a kind with many
// occurrences (read/write of a large file) are sampled: first two, last two, middle and a few
// PRNG picks.
func c12Plan(rec *c12Trace, from int, tier string, r *rand.Rand) (items []c12Item, events []int) {
	byKind := map[string][]int{}
	var kinds []string
	for i := from; i < len(rec.Evs); i++ {
		e := &rec.Evs[i]
		if !e.Proto {
			continue
		}
		if _, ok := byKind[e.Kind]; !ok {
			kinds = append(kinds, e.Kind)
		}
		byKind[e.Kind] = append(byKind[e.Kind], i)
	}
	maxOcc, extra := 6, 1
	if tier == "thorough" {
		maxOcc, extra = 12, 6
	}
	chosen := map[int]bool{}
	for _, k := range kinds {
		l := byKind[k]
		if len(l) <= maxOcc {
			for _, i := range l {
				chosen[i] = true
			}
			continue
		}
		for _, j := range []int{0, 1, len(l) / 2, len(l) - 2, len(l) - 1} {
			chosen[l[j]] = true
		}
		for x := 0; x < extra; x++ {
			chosen[l[r.IntN(len(l))]] = true
		}
	}
	for i := from; i < len(rec.Evs); i++ {
		if !chosen[i] {
			continue
		}
		e := &rec.Evs[i]
		events = append(events, i)
		for _, en := range c12Errnos(e, tier) {
			items = append(items, c12Item{i, e.Kind, e.OccK, c12Inject{e.Kind, e.OccK, en, e.Name, e.OccT}})
		}
		items = append(items, c12Item{i, e.Kind, e.OccK, c12Inject{e.Kind, e.OccK, "", e.Name, e.OccT}})
	}
	return items, events
}

// ---- one case ---------------------------------------------------------------------------

type c12Ctx struct {
	w       *mon.Worker
	pair    *c12Pair
	cross   bool
	work    string // directory of the files; cwd of yq
	tmpBase string
	tmpDir  string // TMPDIR handed to yq
	mkTmp   bool   // create TMPDIR before each run (false = the does-not-exist variant)
	paths   []string
	roles   c12Roles
	old     []byte
	expNew  []byte
	baseRC  int
	logf    string
	evals   int
}

type c12Run struct {
	Injects  []c12Inject
	Res      mon.ExecResult
	Tr       *c12Trace
	Content  []byte
	Missing  bool
	Mode     os.FileMode
	Others   bool   // second input unchanged
	ExitCls  string // rc0 | rcN | killed | lost | timeout
	ContCls  string // old | new | same | empty | prefix | missing | other
	ModeOK   bool
	RestOK   bool
	Landed   []c12Ev
	OffProto bool
}

func (c *c12Ctx) reset() error {
	_ = os.RemoveAll(c.tmpBase)
	if err := os.MkdirAll(c.tmpBase, 0o755); err != nil {
		return err
	}
	if c.mkTmp {
		if err := os.MkdirAll(c.tmpDir, 0o755); err != nil {
			return err
		}
	}
	for i, f := range c.pair.Files {
		_ = os.Remove(c.paths[i])
		path := c.paths[i]
		if i == 0 && c.pair.Link {
			// the referent lives in a directory of its own; the target name is a relative link to it
			rd := filepath.Join(c.work, "real")
			_ = os.RemoveAll(rd)
			if err := os.MkdirAll(rd, 0o755); err != nil {
				return err
			}
			path = filepath.Join(rd, f.Name)
		}
		if err := os.WriteFile(path, f.Content, 0o600); err != nil {
			return err
		}
		m := os.FileMode(0o644)
		if i == 0 {
			m = c.pair.Mode
		}
		if err := os.Chmod(path, m); err != nil {
			return err
		}
		if path != c.paths[i] {
			if err := os.Symlink(filepath.Join("real", f.Name), c.paths[i]); err != nil {
				return err
			}
		}
	}
	return nil
}

func (c *c12Ctx) env(traced bool) []string {
	if traced {
		return mon.CleanEnv("TMPDIR="+c.tmpDir, "GOMAXPROCS=1")
	}
	return mon.CleanEnv("TMPDIR=" + c.tmpDir)
}

// observe fills in what the file system looks like after a run.
func (c *c12Ctx) observe(run *c12Run) {
	b, err := os.ReadFile(c.paths[0])
	if err != nil {
		run.Missing = true
	} else {
		run.Content = b
		if st, err := os.Stat(c.paths[0]); err == nil {
			run.Mode = st.Mode().Perm()
		}
	}
	run.Others = true
	for i := 1; i < len(c.paths); i++ {
		ob, err := os.ReadFile(c.paths[i])
		if err != nil || !bytes.Equal(ob, c.pair.Files[i].Content) {
			run.Others = false
		}
	}
	switch {
	case run.Missing:
		run.ContCls = "missing"
	case bytes.Equal(run.Content, c.old) && bytes.Equal(run.Content, c.expNew):
		run.ContCls = "same"
	case bytes.Equal(run.Content, c.old):
		run.ContCls = "old"
	case bytes.Equal(run.Content, c.expNew):
		run.ContCls = "new"
	case len(run.Content) == 0:
		run.ContCls = "empty"
	case bytes.HasPrefix(c.expNew, run.Content):
		run.ContCls = "prefix"
	default:
		run.ContCls = "other"
	}
	run.ModeOK = !run.Missing && run.Mode == c.pair.Mode.Perm()
	run.RestOK = c.pair.Rest == nil || run.ContCls == "old" || run.ContCls == "same" || (!run.Missing && bytes.HasSuffix(run.Content, c.pair.Rest))
}

// runPlain: `yq -i …` without strace, default environment.
func (c *c12Ctx) runPlain() (c12Run, error) {
	var run c12Run
	if err := c.reset(); err != nil {
		return run, err
	}
	argv := append([]string{c.w.YqBin()}, c.pair.argv(true, c.paths)...)
	run.Res = mon.Run(mon.RunOpts{Dir: c.work, Env: c.env(false), CPUSecs: 30, Wall: 60 * time.Second}, argv...)
	c.evals++
	c.observe(&run)
	switch {
	case run.Res.TimedOut:
		run.ExitCls = "timeout"
	case run.Res.Signal != 0 || run.Res.Exit < 0:
		run.ExitCls = "lost"
	case run.Res.Exit == 0:
		run.ExitCls = "rc0"
	default:
		run.ExitCls = "rcN"
	}
	return run, nil
}

// runTraced: `yq -i …` under the ptrace tracer with the given injections.
func (c *c12Ctx) runTraced(inj []c12Inject) (c12Run, error) {
	run := c12Run{Injects: inj}
	if err := c.reset(); err != nil {
		return run, err
	}
	argv := append([]string{c.w.YqBin()}, c.pair.argv(true, c.paths)...)
	outp, errp := c.logf+".out", c.logf+".err"
	tr, timedOut, err := c12PtraceRun(argv, c.env(true), c.work, outp, errp, inj, c.roles, 30, 60*time.Second)
	c.evals++
	run.Tr = tr
	run.Res.Stdout, _ = os.ReadFile(outp)
	run.Res.Stderr, _ = os.ReadFile(errp)
	c.observe(&run)
	wantKill := false
	for _, i := range inj {
		if i.Errno == "" {
			wantKill = true
		}
	}
	kills := 0
	for i := range tr.Evs {
		if tr.Evs[i].Inj || tr.Evs[i].KillHere {
			run.Landed = append(run.Landed, tr.Evs[i])
		}
		if tr.Evs[i].KillHere {
			kills++
		}
	}
	switch {
	case err != nil:
		run.ExitCls = "lost"
		run.Res.Stderr = append(run.Res.Stderr, []byte("tracer: "+err.Error())...)
	case timedOut:
		run.ExitCls = "timeout"
		run.Res.TimedOut = true
	case tr.Exited:
		run.Res.Exit = tr.ExitCode
		if tr.ExitCode == 0 {
			run.ExitCls = "rc0"
		} else {
			run.ExitCls = "rcN"
		}
	case tr.Killed == "SIGKILL" && wantKill && kills == 1:
		run.ExitCls = "killed"
		run.Res.Exit, run.Res.Signal = -1, int(syscall.SIGKILL)
	default:
		run.ExitCls = "lost" // the tracee died of something that was not injected (rlimit, OOM …)
	}
	for _, e := range run.Landed {
		if !e.Proto {
			run.OffProto = true
		}
	}
	return run, nil
}

// straceRecord runs the fault-free command under strace (an independent tracer) and returns the
// parsed log.
func (c *c12Ctx) straceRecord() (*c12Trace, mon.ExecResult, error) {
	if err := c.reset(); err != nil {
		return nil, mon.ExecResult{}, err
	}
	_ = os.Remove(c.logf)
	argv := []string{c12StraceBin, "-f", "-q", "-s", "0", "-o", c.logf, "-e", "trace=" + c12TraceSetLiteral, c.w.YqBin()}
	argv = append(argv, c.pair.argv(true, c.paths)...)
	res := mon.Run(mon.RunOpts{Dir: c.work, Env: c.env(true), CPUSecs: 30, Wall: 60 * time.Second}, argv...)
	c.evals++
	lb, _ := os.ReadFile(c.logf)
	tr := c12ParseLog(lb)
	tr.assign(c.roles, c.work)
	return tr, res, nil
}

// protoSeq is what two tracers must agree on: the protocol syscalls with their results, in order.
func (t *c12Trace) protoSeq() []string {
	var l []string
	for i := range t.Evs {
		e := &t.Evs[i]
		if !e.Proto || e.Name == "exit_group" { // strace sometimes logs exit_group for a dying sibling thread as well
			continue
		}
		l = append(l, e.Kind+"="+e.Ret+e.Errno)
	}
	return l
}

// withoutI runs the pair's command without -i on a copy of the files in which the target holds
// content, and returns what it prints.
func (c *c12Ctx) withoutI(content []byte) (out []byte, rc int, ok bool) {
	d := filepath.Join(filepath.Dir(c.work), "alt")
	_ = os.RemoveAll(d)
	if os.MkdirAll(d, 0o755) != nil {
		return nil, 0, false
	}
	defer os.RemoveAll(d)
	var paths []string
	for i, f := range c.pair.Files {
		b := f.Content
		if i == 0 {
			b = content
		}
		p := filepath.Join(d, f.Name)
		if os.WriteFile(p, b, 0o644) != nil {
			return nil, 0, false
		}
		paths = append(paths, p)
	}
	_ = os.MkdirAll(c.tmpDir, 0o755)
	res := mon.Run(mon.RunOpts{Dir: d, Env: c.env(true), CPUSecs: 30, Wall: 60 * time.Second}, append([]string{c.w.YqBin()}, c.pair.argv(false, paths)...)...)
	c.evals++
	if res.TimedOut || res.Signal != 0 || res.Exit < 0 {
		return nil, 0, false
	}
	return res.Stdout, res.Exit, true
}

// judge applies the outcome oracle. ok=false: dev says what deviates.
func (c *c12Ctx) judge(run *c12Run) (ok bool, dev string) {
	var bad []string
	switch run.ExitCls {
	case "rc0":
		if run.ContCls != "new" && run.ContCls != "same" {
			bad = append(bad, fmt.Sprintf("exit 0 but the target holds %s (%d bytes), expected the %d bytes the command prints without -i", run.ContCls, len(run.Content), len(c.expNew)))
		}
		if !run.Missing && !run.ModeOK {
			bad = append(bad, fmt.Sprintf("exit 0 but permission bits changed %04o -> %04o", c.pair.Mode.Perm(), run.Mode))
		}
	case "rcN":
		if run.ContCls != "old" && run.ContCls != "same" {
			bad = append(bad, fmt.Sprintf("exit %d but the target is not byte-identical to before: holds %s (%d bytes, before %d)", run.Res.Exit, run.ContCls, len(run.Content), len(c.old)))
		}
		if !run.Missing && !run.ModeOK {
			bad = append(bad, fmt.Sprintf("exit %d but permission bits changed %04o -> %04o", run.Res.Exit, c.pair.Mode.Perm(), run.Mode))
		}
	case "killed":
		if run.ContCls != "old" && run.ContCls != "new" && run.ContCls != "same" {
			bad = append(bad, fmt.Sprintf("killed and the target is neither the complete old nor the complete new content: holds %s (%d bytes; old %d, new %d)", run.ContCls, len(run.Content), len(c.old), len(c.expNew)))
		}
	default:
		return true, ""
	}
	if !run.Others {
		bad = append(bad, "the second input file was modified")
	}
	if !run.RestOK && (run.ContCls == "new" || run.ContCls == "same") {
		bad = append(bad, fmt.Sprintf("--front-matter=process: the %d bytes after the front matter are not preserved (target now %d bytes)", len(c.pair.Rest), len(run.Content)))
	}
	if len(bad) == 0 {
		return true, ""
	}
	return false, strings.Join(bad, "; ")
}

// classify turns a deviation into a known finding (exact matcher) or a violation.
func (c *c12Ctx) classify(run *c12Run) string {
	// (1) front matter + expression without any result: yq prints nothing at all, also without -i
	if c.pair.Rest != nil && len(c.expNew) == 0 && c.baseRC == 0 && (run.ExitCls == "rc0" || run.ExitCls == "killed") &&
		len(run.Content) == 0 && !run.Missing && run.Others && (run.ModeOK || run.ExitCls == "killed") {
		return c12FindFMNoResult
	}
	// (3) JSON input: a failing read of the target is taken for end of input
	if strings.HasSuffix(c.pair.Files[0].Name, ".json") && run.ExitCls == "rc0" && run.Tr != nil && len(run.Landed) == 1 && run.ModeOK && run.Others && !run.Missing {
		got := 0
		failed := false
		for i := range run.Tr.Evs {
			e := &run.Tr.Evs[i]
			if (e.Name == "read" || e.Name == "pread64") && e.Role == "target" {
				if e.Inj && e.Errno != "" && e.Errno != "EINTR" {
					failed = true
					break
				}
				if e.RetN > 0 {
					got += int(e.RetN)
				}
			}
		}
		if failed && got <= len(c.old) {
			if out, rc, ok := c.withoutI(c.old[:got]); ok && rc == 0 && bytes.Equal(out, run.Content) {
				return c12FindJSONRead
			}
		}
	}
	// (2) rename error -> copy fallback truncated the target
	if run.Tr != nil && run.Tr.fallbackEngaged() && run.Tr.faultsOnlyInFallback() && (run.ExitCls == "rcN" || run.ExitCls == "killed") && run.Others && run.ModeOK &&
		(run.ContCls == "empty" || run.ContCls == "prefix" || run.ContCls == "new") {
		return c12FindRename
	}
	return ""
}

func c12Cross(scratch string) (string, bool) {
	var st syscall.Stat_t
	if syscall.Stat(scratch, &st) != nil {
		return "", false
	}
	for _, cand := range []string{"/dev/shm", "/tmp", "/var/tmp", "/run"} {
		var s2 syscall.Stat_t
		if syscall.Stat(cand, &s2) == nil && s2.Dev != st.Dev {
			probe := filepath.Join(cand, fmt.Sprintf(".verif-c12-probe-%d", os.Getpid()))
			if os.WriteFile(probe, nil, 0o600) == nil {
				_ = os.Remove(probe)
				return cand, true
			}
		}
	}
	return "", false
}

func (p c12) Run(w *mon.Worker, idx int) mon.Result {
	group, slice := idx/c12Slices, idx%c12Slices
	pairNo, cross := group/2, group%2 == 1
	r := w.Rand(pairNo * 2 * c12Slices) // one pair for all placements and slices
	pair := c12GenPair(r, pairNo, w.Tier, w.Seed)
	r2 := rand.New(rand.NewPCG(r.Uint64(), uint64(pairNo)+77)) // occurrence sampling, same for every slice

	fsName := "same"
	if cross {
		fsName = "cross"
	}
	res := mon.Result{}
	res.Sig = fmt.Sprintf("c12|%x", hashStr(fmt.Sprintf("%v|%s|%d", pair.describe(), fsName, slice)))
	tags := map[string]bool{"fs:" + fsName: true, "pair:" + pair.Class: true, fmt.Sprintf("mode:%04o", pair.Mode): true, fmt.Sprintf("slice:%d", slice): true}
	caseOut := map[string]any{"pair": pair.describe(), "tmpdir_fs": fsName, "slice": slice}
	res.Case = caseOut
	var c *c12Ctx
	finish := func(verdict, detail string) mon.Result {
		res.Verdict, res.Detail = verdict, detail
		if c != nil {
			res.Evals = c.evals
		}
		for t := range tags {
			res.Tags = append(res.Tags, t)
		}
		sort.Strings(res.Tags)
		return res
	}

	dir := filepath.Join(w.Scratch, fmt.Sprintf("c12-%d", idx))
	_ = os.RemoveAll(dir)
	defer os.RemoveAll(dir)
	c = &c12Ctx{w: w, pair: &pair, cross: cross, work: filepath.Join(dir, "work"), logf: filepath.Join(dir, "strace.log"), mkTmp: true}
	if err := os.MkdirAll(c.work, 0o755); err != nil {
		return finish(mon.Inconclusive, "scratch: "+err.Error())
	}
	if cross {
		base, ok := c12Cross(dir)
		if !ok {
			tags["no_other_filesystem"] = true
			return finish(mon.Inconclusive, "no writable directory on another file system (tried /dev/shm /tmp /var/tmp /run)")
		}
		c.tmpBase = filepath.Join(base, fmt.Sprintf("verif-c12-%d-%d", os.Getpid(), idx))
		defer os.RemoveAll(c.tmpBase)
	} else {
		c.tmpBase = filepath.Join(dir, "t")
	}
	c.tmpDir = filepath.Join(c.tmpBase, "tmp")
	for _, f := range pair.Files {
		c.paths = append(c.paths, filepath.Join(c.work, f.Name))
	}
	c.roles = c12Roles{Target: c.paths[0], TmpDir: c.tmpDir}
	if len(c.paths) > 1 {
		c.roles.Input2 = c.paths[1]
	}
	c.old = pair.Files[0].Content
	fail := func(err error) mon.Result {
		res.Evals = c.evals
		return finish(mon.Inconclusive, "harness could not prepare the files: "+err.Error())
	}

	// expected-new: the same command without -i
	if err := c.reset(); err != nil {
		return fail(err)
	}
	base := mon.Run(mon.RunOpts{Dir: c.work, Env: c.env(true), CPUSecs: 30, Wall: 60 * time.Second}, append([]string{w.YqBin()}, pair.argv(false, c.paths)...)...)
	c.evals++
	if base.TimedOut || base.Signal != 0 || base.Exit < 0 {
		res.Evals = c.evals
		return finish(mon.Inconclusive, fmt.Sprintf("the command without -i did not end normally (timeout=%v signal=%d): %s", base.TimedOut, base.Signal, clipStr(string(base.Stderr), 300)))
	}
	c.expNew, c.baseRC = base.Stdout, base.Exit
	caseOut["without_i"] = map[string]any{"exit": base.Exit, "stdout_bytes": len(base.Stdout), "stderr": clipStr(string(base.Stderr), 200)}
	if base.Exit == 0 {
		tags["baseline:success"] = true
	} else {
		tags["baseline:fails"] = true
	}
	if bytes.Equal(c.expNew, c.old) {
		tags["noop_edit"] = true
	}

	var devs []string  // deviations classified as violations
	var finds []string // deviations explained by a known finding
	findIDs := map[string]int{}
	nLanded, nOff, nNot, nLost := 0, 0, 0, 0
	var offNotes, outNotes []string
	repro := func(run *c12Run) string {
		var sb strings.Builder
		fmt.Fprintf(&sb, "TMPDIR=<dir on %s fs> yq", fsName)
		for _, a := range pair.argv(true, []string{"<" + pair.Files[0].Name + ">"}) {
			sb.WriteString(" " + strconv.Quote(a))
		}
		for _, i := range run.Injects {
			sb.WriteString("  fault " + i.arg() + " (strace -f -e " + i.straceArg() + " while the call stays on that thread)")
		}
		return sb.String()
	}
	// account judges one run and records tags; label says what kind of run it was.
	account := func(run *c12Run, label string) {
		if run.ExitCls == "timeout" {
			tags["run_timeout"] = true
			nLost++
			return
		}
		if run.ExitCls == "lost" {
			tags["strace_lost_tracee"] = true
			nLost++
			return
		}
		if run.OffProto {
			tags["off_protocol"] = true
			nOff++
			if len(offNotes) < 12 {
				var l []string
				for _, e := range run.Landed {
					l = append(l, fmt.Sprintf("tid%d(main %d) %s(%s)", e.Tid, run.Tr.MainTid, e.Name, clipStr(e.Args, 80)))
				}
				offNotes = append(offNotes, fmt.Sprint(run.Injects)+" -> "+strings.Join(l, "; "))
				caseOut["off_protocol_landings"] = offNotes
			}
			return
		}
		if run.Tr != nil && run.Tr.fallbackEngaged() {
			tags["fallback_engaged"] = true
		}
		outc := run.ExitCls + "_" + run.ContCls
		if !run.ModeOK && !run.Missing {
			outc += "_modechanged"
			if run.ExitCls == "killed" {
				tags["killed_mode_changed"] = true
			}
		}
		for i, e := range run.Landed {
			tags["hitk:"+e.Kind] = true
			if i != len(run.Landed)-1 {
				continue // double fault: the outcome belongs to the last fault
			}
			pre := ""
			if len(run.Landed) > 1 {
				pre = "after_" + run.Landed[0].Errno + "_"
			}
			if e.Inj {
				tags["hit:"+pre+e.Kind+":"+e.Errno+":"+outc] = true
			} else {
				tags["kill:"+pre+e.Kind+":"+run.ContCls] = true
			}
		}
		if label != "fault" {
			tags[label+":"+outc] = true
		}
		{
			var fl []string
			for _, i := range run.Injects {
				fl = append(fl, i.arg())
			}
			if len(fl) == 0 {
				fl = []string{label}
			}
			note := strings.Join(fl, "+") + "=>" + outc
			if len(run.Landed) < len(run.Injects) {
				note += "(not landed)"
			}
			outNotes = append(outNotes, note)
		}
		ok, dev := c.judge(run)
		if ok {
			return
		}
		line := fmt.Sprintf("[%s] %s\n    outcome: exit=%s(%d) target=%s mode=%04o; %s\n    protocol trace:%s\n    stderr: %s",
			label, repro(run), run.ExitCls, run.Res.Exit, run.ContCls, run.Mode, dev, func() string {
				if run.Tr == nil {
					return " (not traced)"
				}
				return run.Tr.protoSummary(60)
			}(), clipStr(strings.TrimSpace(string(run.Res.Stderr)), 240))
		if id := c.classify(run); id != "" {
			findIDs[id]++
			tags["finding:"+id] = true
			if len(finds) < 6 {
				finds = append(finds, line)
			}
			return
		}
		devs = append(devs, line)
	}
	summary := func() string {
		return fmt.Sprintf("%s fs=%s slice=%d: %d yq executions, %d fault runs landed on a protocol syscall, %d off-protocol, %d did not land, %d lost/timeouts",
			pair.Class, fsName, slice, c.evals, nLanded, nOff, nNot, nLost)
	}
	verdict := func(gap []string) mon.Result {
		res.Evals = c.evals
		res.Nontrivial = nLanded > 0
		if len(devs) > 0 {
			caseOut["violating_runs"] = devs
			return finish(mon.Violated, summary()+"\n"+strings.Join(devs, "\n"))
		}
		if len(findIDs) > 0 {
			ids := make([]string, 0, len(findIDs))
			for id := range findIDs {
				ids = append(ids, id)
			}
			sort.Strings(ids)
			res.FindingID = ids[0]
			caseOut["finding_runs"] = finds
			return finish(mon.Finding, summary()+fmt.Sprintf("\nknown finding(s) %v matched exactly on %v run(s), e.g.\n%s", ids, findIDs, finds[0]))
		}
		if len(gap) > 0 {
			tags["coverage_gap_local"] = true
			return finish(mon.Inconclusive, summary()+"\nno fault landed on: "+strings.Join(gap, ", "))
		}
		return finish(mon.Held, summary()+"\nobserved: "+strings.Join(outNotes, "; "))
	}

	// plain run (no strace, default environment)
	plain, err := c.runPlain()
	if err != nil {
		return fail(err)
	}
	account(&plain, "plain")
	// the same run the way a user at a terminal starts it: stdout is a character device and nothing switches colours
	// off. What goes into the FILE is what `yq EXPR file` prints into a pipe all the same.
	if slice == 0 {
		if err := c.reset(); err != nil {
			return fail(err)
		}
		sh := `exec "$@" > /dev/null`
		argv := append([]string{"/bin/sh", "-c", sh, "sh", c.w.YqBin()}, c.pair.argv(true, c.paths)...)
		var tty c12Run
		tty.Res = mon.Run(mon.RunOpts{Dir: c.work, Env: []string{"PATH=/usr/bin:/bin", "HOME=/nonexistent", "LANG=C.UTF-8", "TERM=xterm-256color", "TMPDIR=" + c.tmpDir}, CPUSecs: 30, Wall: 60 * time.Second}, argv...)
		c.evals++
		c.observe(&tty)
		switch {
		case tty.Res.TimedOut:
			tty.ExitCls = "timeout"
		case tty.Res.Signal != 0 || tty.Res.Exit < 0:
			tty.ExitCls = "lost"
		case tty.Res.Exit == 0:
			tty.ExitCls = "rc0"
		default:
			tty.ExitCls = "rcN"
		}
		account(&tty, "plain_chardev_stdout")
	}

	// recording run
	rec, err := c.runTraced(nil)
	if err != nil {
		return fail(err)
	}
	if rec.ExitCls == "lost" || rec.ExitCls == "timeout" {
		res.Evals = c.evals
		tags["recording_failed"] = true
		return finish(mon.Inconclusive, "recording run unusable: "+rec.ExitCls+" unparsed="+clipStr(strings.Join(rec.Tr.Unparsed, " | "), 300))
	}
	account(&rec, "record")
	// an independent tracer must see the same protocol
	if st, sres, err := c.straceRecord(); err != nil {
		return fail(err)
	} else if sres.TimedOut || !st.Exited || len(st.Unparsed) > 0 {
		tags["strace_lost_tracee"] = true
		return finish(mon.Inconclusive, "strace cross-check recording unusable: "+clipStr(strings.Join(st.Unparsed, " | "), 300))
	} else if a, b := rec.Tr.protoSeq(), st.protoSeq(); strings.Join(a, " ") != strings.Join(b, " ") {
		tags["tracer_disagreement"] = true
		i := 0
		for i < len(a) && i < len(b) && a[i] == b[i] {
			i++
		}
		from := i - 3
		if from < 0 {
			from = 0
		}
		return finish(mon.Inconclusive, fmt.Sprintf("the ptrace recording (%d protocol calls) and the strace recording (%d) of the same command disagree from call %d on:\n ptrace: %s\n strace: %s",
			len(a), len(b), i, clipStr(strings.Join(a[from:], " "), 600), clipStr(strings.Join(b[from:], " "), 600)))
	} else {
		tags["strace_crosscheck_agrees"] = true
	}
	for i := range rec.Tr.Evs {
		if e := &rec.Tr.Evs[i]; e.Proto {
			tags["rec:"+e.Kind] = true
			if e.Tid != rec.Tr.MainTid {
				tags["protocol_syscall_off_main_thread"] = true
			}
		}
	}
	if len(devs) > 0 {
		// the fault-free run already breaks the property: no point in enumerating faults
		res.Nontrivial = true
		res.Evals = c.evals
		caseOut["violating_runs"] = devs
		return finish(mon.Violated, summary()+"\n(fault-free run)\n"+strings.Join(devs, "\n"))
	}

	// runItems executes plan items; pre = injections that precede the item's own (double faults).
	runItems := func(items []c12Item, pre []c12Inject, label string) (gap []string) {
		hitEv := map[int]bool{}
		evKind := map[int]string{}
		for _, it := range items {
			evKind[it.EvIdx] = fmt.Sprintf("%s#%d", it.Kind, it.OccK)
			inj := append(append([]c12Inject{}, pre...), it.Inj)
			var run c12Run
			landedHere := false
			for attempt := 0; attempt < 2; attempt++ {
				var err error
				run, err = c.runTraced(inj)
				if err != nil {
					tags["harness_io_error"] = true
					break
				}
				if run.ExitCls == "lost" || run.ExitCls == "timeout" {
					continue
				}
				// landed = every injection fired and the last one hit the planned kind
				if n := len(run.Landed); n == len(inj) && run.Landed[n-1].Kind == it.Inj.Kind {
					landedHere = true
					break
				}
				if run.OffProto {
					break
				}
			}
			account(&run, label)
			if run.ExitCls == "lost" || run.ExitCls == "timeout" || run.OffProto {
				continue
			}
			if landedHere {
				nLanded++
				hitEv[it.EvIdx] = true
			} else {
				nNot++
				tags["fault_did_not_land"] = true
			}
		}
		seen := map[int]bool{}
		for _, it := range items {
			if !hitEv[it.EvIdx] && !seen[it.EvIdx] {
				seen[it.EvIdx] = true
				gap = append(gap, evKind[it.EvIdx])
			}
		}
		return gap
	}

	if slice < c12Slices-1 {
		items, _ := c12Plan(rec.Tr, 0, w.Tier, r2)
		var mine []c12Item
		for j, it := range items {
			if j%(c12Slices-1) == slice {
				mine = append(mine, it)
			}
		}
		caseOut["plan_items_total"], caseOut["plan_items_this_slice"] = len(items), len(mine)
		gap := runItems(mine, nil, "fault")
		// afterwards: whatever the failed and killed runs of this slice left behind (next to the target, in TMPDIR), a
		// later successful edit whose output is SHORTER still leaves exactly its own output in the target
		switch pair.Class {
		case "edit_small", "edit_large", "long_line", "json_file", "symlink_target", "multi_doc":
			short := pair
			short.Expr = `{"z": 1}`
			if err := c.reset(); err == nil {
				exp := mon.Run(mon.RunOpts{Dir: c.work, Env: c.env(false), CPUSecs: 30, Wall: 60 * time.Second}, append([]string{w.YqBin()}, short.argv(false, c.paths)...)...)
				if err := c.reset(); err == nil && exp.Exit == 0 && !exp.TimedOut {
					got := mon.Run(mon.RunOpts{Dir: c.work, Env: c.env(false), CPUSecs: 30, Wall: 60 * time.Second}, append([]string{w.YqBin()}, short.argv(true, c.paths)...)...)
					c.evals += 2
					b, _ := os.ReadFile(c.paths[0])
					tags["afterwards_short_edit"] = true
					if !got.TimedOut && (got.Exit != 0 || !bytes.Equal(b, exp.Stdout)) {
						devs = append(devs, fmt.Sprintf("[afterwards] after the fault runs of this slice (same directory, same TMPDIR) `yq -i '%s'` (exit %d) leaves %q in the target; the same command without -i prints %q\n    stderr: %s",
							short.Expr, got.Exit, clipStr(string(b), 300), clipStr(string(exp.Stdout), 300), clipStr(string(got.Stderr), 200)))
					}
				}
			}
		}
		return verdict(gap)
	}

	// ---- variant slice ----
	renIdx := -1
	for i := range rec.Tr.Evs {
		e := &rec.Tr.Evs[i]
		if c12IsRename(e.Name) && strings.HasSuffix(e.Kind, "(outtemp->target)") && e.Ret == "0" {
			renIdx = i
		}
	}
	if !cross && renIdx >= 0 {
		// double faults: an injected rename error engages the copy fallback, then every step of the fallback is faulted
		tags["variant:double_fault"] = true
		re := rec.Tr.Evs[renIdx]
		errs := []string{"EXDEV", "EACCES", "EPERM", "EIO", "ENOSPC"}
		first := c12Inject{re.Kind, re.OccK, errs[(pairNo+int(uint64(w.Seed)%5))%5], re.Name, re.OccT}
		caseOut["first_fault"] = first.arg()
		rec2, err := c.runTraced([]c12Inject{first})
		if err != nil {
			return fail(err)
		}
		if rec2.ExitCls == "lost" || rec2.ExitCls == "timeout" || len(rec2.Landed) != 1 || !c12IsRename(rec2.Landed[0].Name) {
			tags["recording_failed"] = true
			res.Evals = c.evals
			return finish(mon.Inconclusive, "second recording (injected rename error) unusable: "+rec2.ExitCls)
		}
		account(&rec2, "record2")
		nLanded++
		from := 0
		for i := range rec2.Tr.Evs {
			if rec2.Tr.Evs[i].Inj {
				from = i + 1
			}
		}
		for i := from; i < len(rec2.Tr.Evs); i++ {
			if e := &rec2.Tr.Evs[i]; e.Proto {
				tags["rec:"+e.Kind] = true
			}
		}
		items, _ := c12Plan(rec2.Tr, from, w.Tier, r2)
		caseOut["plan_items_this_slice"] = len(items)
		gap := runItems(items, []c12Inject{first}, "fault")
		return verdict(gap)
	}

	// TMPDIR does not exist: yq creates it (mkdir 0700) before creating the temporary
	tags["variant:tmpdir_missing"] = true
	c.mkTmp = false
	rec3, err := c.runTraced(nil)
	if err != nil {
		return fail(err)
	}
	if rec3.ExitCls == "lost" || rec3.ExitCls == "timeout" {
		tags["recording_failed"] = true
		res.Evals = c.evals
		return finish(mon.Inconclusive, "recording (TMPDIR missing) unusable: "+rec3.ExitCls)
	}
	account(&rec3, "record_tmpdir_missing")
	if len(devs) > 0 {
		res.Nontrivial = true
		return verdict(nil)
	}
	// plan: everything up to and including the chown of the output temporary, plus (successful pairs) the rename and the exit
	last := -1
	for i := range rec3.Tr.Evs {
		e := &rec3.Tr.Evs[i]
		if e.Proto {
			tags["rec:"+e.Kind] = true
		}
		if e.Proto && (e.Name == "fchownat" || e.Name == "fchown" || e.Name == "chown") && e.Role == "outtemp" && last < 0 {
			last = i
		}
	}
	all, _ := c12Plan(rec3.Tr, 0, w.Tier, r2)
	var items []c12Item
	for _, it := range all {
		e := &rec3.Tr.Evs[it.EvIdx]
		if it.EvIdx <= last || last < 0 && e.Role == "tmpdir" || c12IsRename(e.Name) || e.Name == "exit_group" || e.Name == "mkdirat" || e.Name == "mkdir" {
			items = append(items, it)
		}
	}
	caseOut["plan_items_this_slice"] = len(items)
	gap := runItems(items, nil, "fault")
	return verdict(gap)
}

// Finish: every protocol syscall kind that any recording run listed must have received at least
// one fault that landed; otherwise nothing in this run counts as coverage (the parent then reports
// INCONCLUSIVE because no case is non-trivial).
func (c12) Finish(w *mon.Worker, results []mon.Result) []mon.Result {
	rec := map[string]bool{}
	hit := map[string]bool{}
	for _, r := range results {
		for _, t := range r.Tags {
			if strings.HasPrefix(t, "rec:") {
				rec[t[4:]] = true
			} else if strings.HasPrefix(t, "hitk:") {
				hit[t[5:]] = true
			}
		}
	}
	var missing []string
	for k := range rec {
		if !hit[k] {
			missing = append(missing, k)
		}
	}
	if len(missing) == 0 || len(results) == 0 {
		return results
	}
	sort.Strings(missing)
	for i := range results {
		results[i].Nontrivial = false
	}
	for _, k := range missing {
		results[0].Tags = append(results[0].Tags, "coverage_gap:"+k)
	}
	results[0].Detail = "recorded protocol syscall kinds that no fault ever hit: " + strings.Join(missing, ", ") + "\n" + results[0].Detail
	return results
}
