package props

import (
	"encoding/json"
	"fmt"
	"math/rand/v2"
	"os"
	"path/filepath"
	"regexp"
	"strings"

	"verifharness/mon"
	"verifharness/ref"
)

// C10 — multi-document, multi-file input is processed document by document, in order.
//
// Oracles (see DESIGN.md §5 C10):
//
//	O1 bytes      `yq E f1..fn` == per-document outputs joined by "---\n" (nothing with -N)
//	O2 parsed     comment/separator-laden files, <=1 result per document: segmented stream of the
//	              combined run == concatenation of the segmented per-document runs
//	O3 indices    [document_index, file_index, filename] == the harness's bookkeeping (eval and eval-all)
//	O4 ea/ident   `yq ea E f` == `yq E f` on one document; identity keeps N documents (yaml.v3 count)
//	O5 history    writer expressions: document k's output in the stream == alone, under two
//	              orderings (permuted, duplicated) of the same documents
//
// Engines: the real binary (plain worker) and yqlib's EvaluateFiles in-process with one shared
// expression tree / decoder / printer (every 4th plain case and every case of the -race worker).
type c10 struct{}

func init() { mon.Register(c10{}) }

func (c10) ID() string    { return "C10" }
func (c10) Level() string { return "exploration" }
func (c10) Rule() string {
	return "case = (oracle family, expression, 1..4 files x 0..4 documents, -N?, engine). O1/O5: stdout of `yq E f1..fn` must equal the stdouts of " +
		"`yq E <document alone in its own file>` in order, empty ones skipped, joined by \"---\\n\" (by nothing with -N); if E fails on document k alone the " +
		"stream must fail after printing exactly the earlier documents. O5 repeats that for a permuted/duplicated ordering of the same documents with " +
		"expressions that write into the tree or the expression. O2: same comparison on comment/separator-laden files after segmenting both sides into " +
		"(data by yaml.v3, comment lines) per `---`-delimited segment. O3: `[document_index, file_index, filename]` (and aliases; eval-all: the three " +
		"operators separately) as JSON == (position in file, position on the command line counting empty files, name as given). O4: `yq ea E f` == `yq E f` " +
		"byte for byte on a single-document file; `yq .` and `yq ea .` over N documents print N documents (counted by yaml.v3). " +
		"Non-trivial = the case has >= 2 documents or >= 2 files (O4 single-document comparison: the expression is not the identity). " +
		"Distinct by family + hash(expression, file texts, flags)."
}
func (c10) Assumptions() []string {
	return []string{
		"a document written alone into its own file is 'the document run separately'; for an explicit empty / comment-only document that file is `---\\n` / `---\\n# c\\n`",
		"a file holding only comment lines counts as one (null) document, a zero-byte file as none (yq's convention, used as bookkeeping)",
		"expressions are document-local and deterministic: no document_index/file_index/filename/line/column, env, now, shuffle, split_doc in O1/O2/O4/O5 (load only of one constant side file)",
		"O2 keeps comments where yaml.v3 attaches them unambiguously: whole-line comments directly above/below a document body, never separated from it by blank lines; first document of a file is never an explicit empty/comment-only one (O3 covers that shape)",
		"file names avoid extensions that select another input format (.json .xml .csv .toml ...); all runs use default flags",
		"in-process engine = yqlib.NewStreamEvaluator().EvaluateFiles / NewAllAtOnceEvaluator().EvaluateFiles with default YAML preferences, as cmd/ wires them; stdin cases are given a real file there",
	}
}
func (c10) Cases(tier string) int {
	if tier == "thorough" {
		return 8000
	}
	return 1600
}
func (c10) RaceCases(tier string) int {
	if tier == "thorough" {
		return 3000
	}
	return 150
}
func (c10) Floor(tier string) int {
	if tier == "thorough" {
		return 3000
	}
	return 200
}

type c10Case struct {
	Family string    `json:"family"`
	Engine string    `json:"engine"`
	Expr   string    `json:"expr"`
	NoSep  bool      `json:"no_separators,omitempty"`
	Files  []c10File `json:"files"`
	Files2 []c10File `json:"files_second_ordering,omitempty"`
	Extra  []string  `json:"extra,omitempty"`
	Cmd    string    `json:"command,omitempty"`
	tmpl   c10Tmpl
	rich   []c10RichFile
}

func (p c10) Run(w *mon.Worker, idx int) mon.Result {
	if idx%10 == 3 {
		// O6: one encoder object serves all documents of a run (every output format): the text for document k does
		// not depend on documents 1..k-1 (shared with C14's encoder-state family)
		res := c14MultiDoc(w, idx)
		res.Tags = append(res.Tags, "family:O6")
		return res
	}
	if idx%20 == 7 && !w.Race {
		return c10JSONStream(w, idx)
	}
	if idx%20 == 17 && !w.Race {
		// O8: one decoder object serves all input files of a run (every input format): what it yields for file k does not
		// depend on files 1..k-1 (shared with C14's decoder-state family)
		res := c14MultiFileDecode(w, idx)
		res.Tags = append(res.Tags, "family:O8")
		return res
	}
	r := w.Rand(idx)
	dir := filepath.Join(w.Scratch, fmt.Sprintf("c10-%d", idx))
	_ = os.MkdirAll(dir, 0o755)
	defer os.RemoveAll(dir)
	x := &c10Exec{w: w, dir: dir, inproc: w.Race || idx%4 == 3}

	// the family and the whole case are drawn before the engine matters
	var c c10Case
	switch k := r.IntN(100); {
	case k < 34:
		c = c10GenStream(r, "O1")
	case k < 54:
		c = c10GenStream(r, "O5")
	case k < 69:
		c = c10GenIndices(r)
	case k < 78:
		c = c10GenEvalAll(r)
	case k < 88:
		c = c10GenIdentity(r)
	default:
		c = c10GenParsed(r)
	}
	c.Engine = x.kind()
	if x.inproc {
		// no stdin in-process: the same bytes come from a real file instead
		for _, fs := range [][]c10File{c.Files, c.Files2} {
			for i := range fs {
				if fs[i].Name == "-" {
					fs[i].Name = "stdin_as_file.yaml"
				}
			}
		}
	}
	var v c10Verdict
	switch c.Family {
	case "O1", "O5":
		v = p.runStream(x, &c)
	case "O3":
		v = p.runIndices(x, &c)
	case "O4-evalall":
		v = p.runEvalAll(x, &c)
	case "O4-identity":
		v = p.runIdentity(x, &c)
	default:
		v = p.runParsed(x, &c)
	}
	if x.firstCalls != "" {
		c.Extra = append(c.Extra, "printer->encoder calls of the combined run: "+x.firstCalls)
	}
	res := mon.Result{Verdict: v.Verdict, FindingID: v.Finding, Detail: v.Detail, Case: c, Evals: x.evals}
	nd, nf := c10CountDocs(c.Files), len(c.Files)
	res.Nontrivial = nd >= 2 || nf >= 2
	if c.Family == "O4-evalall" {
		res.Nontrivial = c.Expr != "."
	}
	var hs strings.Builder
	hs.WriteString(c.Expr)
	for _, f := range append(append([]c10File{}, c.Files...), c.Files2...) {
		hs.WriteString("\x00" + f.Name + "\x01" + f.Text)
	}
	fmt.Fprintf(&hs, "\x00%v", c.NoSep)
	res.Sig = fmt.Sprintf("%s|%x", c.Family, hashStr(hs.String()))
	res.Tags = append([]string{"family:" + c.Family, "engine:" + c.Engine}, c10FileTags(c.Files)...)
	if c.NoSep {
		res.Tags = append(res.Tags, "flag:-N")
	}
	if c.tmpl.Op != "" {
		res.Tags = append(res.Tags, "op:"+c.tmpl.Op, "results-per-doc:"+c.tmpl.Class)
	}
	res.Tags = append(res.Tags, v.Tags...)
	return res
}

// ---- O1 / O5 ------------------------------------------------------------------------------

func c10GenStream(r *rand.Rand, family string) c10Case {
	t := c10Compose(r, c10PickTmpl(r, family == "O5"))
	if family == "O1" && r.IntN(12) == 0 {
		// operators that hand out a copy of the document root: the copy stands where the root stands
		var pr []c10Tmpl
		for _, u := range c10Tmpls {
			if u.Op == "pick-root" {
				pr = append(pr, u)
			}
		}
		t = pr[r.IntN(len(pr))]
	}
	c := c10Case{Family: family, Expr: t.Expr, tmpl: t}
	c.NoSep = r.IntN(5) == 0
	c.Files = c10PlainFiles(r, t.Shape, true)
	if c10CountDocs(c.Files) == 0 {
		// at least one document somewhere (with none at all yq evaluates E on a synthetic null: not this property)
		txt, k := c10Doc(r, t.Shape)
		c.Files = append(c.Files, c10File{Name: "last.yaml", Docs: []string{txt + "\n"}, Kinds: []string{k}, Text: txt + "\n"})
	}
	if family == "O5" {
		// second ordering: the same documents shuffled, some duplicated, cut into files anew
		var pool []string
		var kinds []string
		for _, f := range c.Files {
			for i, d := range f.Docs {
				if !strings.HasSuffix(d, "\n") {
					d += "\n"
				}
				pool = append(pool, d)
				kinds = append(kinds, f.Kinds[i])
			}
		}
		n := len(pool)
		for i := 0; i < 1+r.IntN(2); i++ {
			j := r.IntN(n)
			pool, kinds = append(pool, pool[j]), append(kinds, kinds[j])
		}
		r.Shuffle(len(pool), func(i, j int) { pool[i], pool[j] = pool[j], pool[i]; kinds[i], kinds[j] = kinds[j], kinds[i] })
		nf := 1 + r.IntN(3)
		cuts := make([][]int, nf)
		for i := range pool {
			k := r.IntN(nf)
			cuts[k] = append(cuts[k], i)
		}
		for k, cut := range cuts {
			f := c10File{Name: fmt.Sprintf("perm%d.yaml", k)}
			for _, i := range cut {
				f.Docs = append(f.Docs, pool[i])
				f.Kinds = append(f.Kinds, kinds[i])
			}
			f.Text = strings.Join(f.Docs, "---\n")
			if len(cut) == 0 {
				f.Feat = []string{"empty-file"}
			}
			c.Files2 = append(c.Files2, f)
		}
	}
	return c
}

func (p c10) runStream(x *c10Exec, c *c10Case) c10Verdict {
	solo := newSoloCache(x)
	names, stdin, err := c10Write(x, c.Files)
	if err != nil {
		return c10Verdict{Verdict: mon.Inconclusive, Detail: "cannot write case files: " + err.Error()}
	}
	c.Cmd = c10CmdLine(c.Expr, names, c10Flags{NoSep: c.NoSep})
	v := c10CheckStream(x, solo, c.Expr, c.Files, names, stdin, c.NoSep)
	if v.Verdict != mon.Held || c.Family != "O5" {
		return v
	}
	names2, stdin2, err := c10Write(x, c.Files2)
	if err != nil {
		return c10Verdict{Verdict: mon.Inconclusive, Detail: "cannot write case files: " + err.Error()}
	}
	v2 := c10CheckStream(x, solo, c.Expr, c.Files2, names2, stdin2, c.NoSep)
	v2.Tags = append(v2.Tags, v.Tags...)
	if v2.Verdict != mon.Held {
		v2.Detail = "second ordering (documents permuted/duplicated): " + v2.Detail
		c.Cmd = c10CmdLine(c.Expr, names2, c10Flags{NoSep: c.NoSep})
		return v2
	}
	v2.Tags = append(v2.Tags, "second-ordering")
	return v2
}

func c10CmdLine(expr string, names []string, fl c10Flags) string {
	var sb strings.Builder
	sb.WriteString("yq")
	if fl.All {
		sb.WriteString(" ea")
	}
	if fl.NoSep {
		sb.WriteString(" -N")
	}
	if fl.JSON {
		sb.WriteString(" -o=json -I=0")
	}
	sb.WriteString(" '" + strings.ReplaceAll(expr, "'", `'\''`) + "'")
	for _, n := range names {
		sb.WriteString(" '" + n + "'")
	}
	return sb.String()
}

// ---- O3 indices ----------------------------------------------------------------------------

const c10FindingC = "C10-leading-empty-documents-not-counted"

var c10IndexForms = []struct {
	expr    string
	mode    string // row: one [d,f,n] row per document | rows: a list of rows per document | derived: row taken from a derived root value
	needMap bool
	needSeq bool // non-empty sequence documents
}{
	{"[document_index, file_index, filename]", "row", false, false},
	{"[di, fi, file_name]", "row", false, false},
	{"[documentIndex, fileIndex, fileName]", "row", false, false},
	{"[document_index, file_index, filename]", "row", false, false},
	{"[.. | [di, fi, filename]] | unique", "rows", false, false},
	{".a | [document_index, file_index, filename]", "row", true, false},
	{"(.a = 5) | [di, fi, filename]", "row", true, false},
	{"select(true) | [di, fi, filename]", "row", false, false},
	{"[.] | [document_index, file_index, filename]", "derived", false, false},
	{"tag | [di, fi, filename]", "derived", false, false},
	{"select(true) | [document_index, file_index, file_name]", "row", false, false},
	{". as $d | [$d | di, $d | fi, $d | filename]", "row", false, false},
	// the index keys of sequence elements are nodes of their document too
	{"[.[] | key | [di, fi, filename]] | unique", "rows", false, true},
	{".[0] | key | [document_index, file_index, filename]", "row", false, true},
	{".[-1] | key | [di, fi, file_name]", "row", false, true},
}

func c10GenIndices(r *rand.Rand) c10Case {
	c := c10Case{Family: "O3"}
	form := c10IndexForms[r.IntN(len(c10IndexForms))]
	c.Expr = form.expr
	c.Extra = []string{"mode:" + form.mode}
	shape := "any"
	if form.needMap {
		shape = "puremap"
	}
	if form.needSeq {
		shape = "nonemptyseq"
	}
	nf := 1 + r.IntN(4)
	for i := 0; i < nf; i++ {
		f := c10File{Name: c10FileName(r, i)}
		k := r.IntN(14)
		if form.needSeq && k <= 1 {
			k = 5 // a comment-only file is a null document: `.[0]` would not be a sequence element
		}
		switch {
		case k == 0:
			f.Feat = []string{"empty-file"}
		case k == 1:
			f.Text = fmt.Sprintf("# nothing but a comment %d\n", i)
			f.Docs, f.Kinds, f.Feat = []string{f.Text}, []string{"comment"}, []string{"comment-only-file"}
		default:
			nd := 1 + r.IntN(4)
			for d := 0; d < nd; d++ {
				var t string
				if shape == "puremap" {
					t = c10MapDoc(r, 1).JSON()
				} else if shape == "nonemptyseq" {
					v := c10SeqDoc(r, 1)
					for len(v.A) == 0 {
						v = c10SeqDoc(r, 1)
					}
					t = v.JSON()
				} else {
					t, _ = c10Doc(r, []string{"map", "seq", "any"}[r.IntN(3)])
				}
				f.Docs = append(f.Docs, t+"\n")
				f.Kinds = append(f.Kinds, "json")
			}
			f.Text = strings.Join(f.Docs, "---\n")
			if k == 2 && form.mode == "row" && !form.needMap && !form.needSeq {
				// the file starts with explicit empty / comment-only documents
				lead := 1 + r.IntN(2)
				pre := ""
				for j := 0; j < lead; j++ {
					if r.IntN(2) == 0 {
						pre += "---\n"
						f.Docs = append([]string{"---\n"}, f.Docs...)
						f.Kinds = append([]string{"empty"}, f.Kinds...)
					} else {
						pre += fmt.Sprintf("---\n# lead %d\n", j)
						f.Docs = append([]string{fmt.Sprintf("---\n# lead %d\n", j)}, f.Docs...)
						f.Kinds = append([]string{"comment"}, f.Kinds...)
					}
				}
				f.Text = pre + "---\n" + f.Text
				f.Feat = append(f.Feat, fmt.Sprintf("leading-empty-docs:%d", lead))
			}
			if r.IntN(6) == 0 {
				f.Text = strings.TrimSuffix(f.Text, "\n")
				f.Feat = append(f.Feat, "no-final-newline")
			}
		}
		if r.IntN(10) == 0 && i > 0 {
			f.Name = "-"
			f.Feat = append(f.Feat, "stdin")
			for j := 0; j < i; j++ {
				if c.Files[j].Name == "-" {
					f.Name = c10FileName(r, i)
				}
			}
		}
		c.Files = append(c.Files, f)
	}
	if len(c.Files) >= 2 && r.IntN(6) == 0 {
		src := c.Files[r.IntN(len(c.Files))]
		if src.Name != "-" {
			src.Feat = append(append([]string{}, src.Feat...), "file-twice")
			c.Files = append(c.Files, src)
		}
	}
	if r.IntN(3) == 0 && form.mode == "row" && !form.needMap && !form.needSeq {
		// eval-all reads leading content only for the first file: whether a LATER comment-only file is a
		// document differs between eval (1, yq's convention) and eval-all (0, YAML's): not booked either way
		ok := true
		for i, f := range c.Files {
			if i > 0 && len(f.Kinds) == 1 && f.Kinds[0] == "comment" {
				ok = false
			}
		}
		if ok {
			c.Extra = append(c.Extra, "eval-all")
		}
	}
	return c
}

func c10HasExtra(c *c10Case, s string) bool {
	for _, e := range c.Extra {
		if e == s {
			return true
		}
	}
	return false
}

// c10Rows is the bookkeeping: one (document index, file index, name) per document. With
// foldLeading (the model of finding C) explicit empty/comment-only documents at the start of a
// file are not documents: none of them yields a row and the following documents count from 0.
func c10Rows(files []c10File, names []string, foldLeading bool, onlyFirstFile ...bool) [][3]any {
	var rows [][3]any
	for fi, f := range files {
		skip := 0
		if foldLeading && !(len(onlyFirstFile) > 0 && onlyFirstFile[0] && fi > 0) {
			for _, k := range f.Kinds {
				if (k == "empty" || k == "comment") && len(f.Docs) > 1 {
					skip++
				} else {
					break
				}
			}
			if skip == len(f.Docs) && skip > 0 {
				skip-- // nothing but empty documents: yq sees one
			}
		}
		for di := skip; di < len(f.Docs); di++ {
			rows = append(rows, [3]any{di - skip, fi, names[fi]})
		}
	}
	return rows
}

func c10RowV(row [3]any) *ref.V {
	return ref.SeqV(ref.IntV(int64(row[0].(int))), ref.IntV(int64(row[1].(int))), ref.StrV(row[2].(string)))
}

func (p c10) runIndices(x *c10Exec, c *c10Case) c10Verdict {
	names, stdin, err := c10Write(x, c.Files)
	if err != nil {
		return c10Verdict{Verdict: mon.Inconclusive, Detail: "cannot write case files: " + err.Error()}
	}
	mode := strings.TrimPrefix(c.Extra[0], "mode:")
	tags := []string{"index-form:" + mode}
	truth := c10Rows(c.Files, names, false)
	hasLeading := false
	for _, f := range c.Files {
		for _, ft := range f.Feat {
			if strings.HasPrefix(ft, "leading-empty-docs") {
				hasLeading = true
			}
		}
	}
	if c10HasExtra(c, "eval-all") {
		tags = append(tags, "eval-all")
		for col, e := range []string{"document_index", "file_index", "filename"} {
			fl := c10Flags{All: true, JSON: true}
			c.Cmd = c10CmdLine(e, names, fl)
			o := x.run(e, names, fl, stdin)
			if o.TimedOut {
				return c10Verdict{Verdict: mon.Inconclusive, Detail: "timed out", Tags: tags}
			}
			if len(truth) == 0 {
				continue // no documents at all: eval-all evaluates on a synthetic null, nothing to compare
			}
			got, perr := ref.ParseJSONStream(o.Stdout)
			var want, wantFold []*ref.V
			for _, row := range truth {
				want = append(want, c10RowV(row).A[col])
			}
			// eval-all pre-reads leading content for the first file only
			for _, row := range c10Rows(c.Files, names, true, true) {
				wantFold = append(wantFold, c10RowV(row).A[col])
			}
			if o.Failed || perr != nil || !c10EqualVs(got, want) {
				v := c10Verdict{Verdict: mon.Violated, Tags: tags, Detail: fmt.Sprintf("[%s] %s\nexpected %s\nobserved %s (failed=%v %s)",
					x.kind(), c.Cmd, c10VsString(want), c10Clip(o.Stdout), o.Failed, c10Clip(o.Stderr))}
				if !o.Failed && perr == nil && hasLeading && c10EqualVs(got, wantFold) {
					v.Verdict, v.Finding = mon.Finding, c10FindingC
				}
				return v
			}
		}
		return c10Held(fmt.Sprintf("eval-all: %d rows as booked", len(truth)), tags...)
	}
	fl := c10Flags{JSON: true}
	c.Cmd = c10CmdLine(c.Expr, names, fl)
	o := x.run(c.Expr, names, fl, stdin)
	if o.TimedOut {
		return c10Verdict{Verdict: mon.Inconclusive, Detail: "timed out", Tags: tags}
	}
	if len(truth) == 0 {
		if o.Failed {
			return c10Verdict{Verdict: mon.Violated, Tags: tags, Detail: fmt.Sprintf("[%s] %s failed on inputs without documents: %s", x.kind(), c.Cmd, c10Clip(o.Stderr))}
		}
		return c10Held("no documents at all", append(tags, "no-documents")...)
	}
	got, perr := ref.ParseJSONStream(o.Stdout)
	wrap := func(rows [][3]any) []*ref.V {
		var want []*ref.V
		for _, row := range rows {
			if mode == "rows" {
				want = append(want, ref.SeqV(c10RowV(row)))
			} else {
				want = append(want, c10RowV(row))
			}
		}
		return want
	}
	want := wrap(truth)
	if !o.Failed && perr == nil && c10EqualVs(got, want) {
		return c10Held(fmt.Sprintf("%d rows as booked", len(want)), tags...)
	}
	v := c10Verdict{Verdict: mon.Violated, Tags: tags, Detail: fmt.Sprintf("[%s] %s\nexpected %s\nobserved %s (failed=%v %s)",
		x.kind(), c.Cmd, c10VsString(want), c10Clip(o.Stdout), o.Failed, c10Clip(o.Stderr))}
	if o.Failed || perr != nil {
		return v
	}
	// finding B: a value derived from the root reports no provenance at all: every row is [0,0,""]
	if mode == "derived" && len(got) == len(want) {
		all := true
		for _, g := range got {
			if !ref.Equal(g, ref.SeqV(ref.IntV(0), ref.IntV(0), ref.StrV(""))) {
				all = false
			}
		}
		if all {
			v.Verdict, v.Finding = mon.Finding, c10FindingB
			return v
		}
	}
	// finding C: explicit empty documents at the start of a file are folded into the next document
	if hasLeading && c10EqualVs(got, wrap(c10Rows(c.Files, names, true))) {
		v.Verdict, v.Finding = mon.Finding, c10FindingC
	}
	return v
}

func c10EqualVs(a, b []*ref.V) bool {
	if len(a) != len(b) {
		return false
	}
	for i := range a {
		if !ref.Equal(a[i], b[i]) {
			return false
		}
	}
	return true
}

func c10VsString(vs []*ref.V) string {
	var parts []string
	for _, v := range vs {
		parts = append(parts, v.JSON())
	}
	return c10Clip(strings.Join(parts, "\n"))
}

// ---- O4: eval-all == eval on one document ------------------------------------------------------

// c10NonTotal: a key or index traversal that may miss. On a miss eval yields null where eval-all may
// yield nothing (`[.a, .b]`): the property claims agreement only for total traversals.
var c10NonTotal = regexp.MustCompile(`\.[A-Za-z_"]|\[-?[0-9]+\]`)

// recorded deviation: a context made of nothing but copies of the document root is "all documents" to eval-all
const c10FindingRootCopies = "C10-eval-all-collects-copies-of-the-root-together"

// the two templates whose context can consist of two copies of the root and nothing else (the second only when
// the document is an empty container)
var c10RootCopiesOnly = map[string]bool{"(., .) | [kind] | length": true, "(., .[], .) | [kind] | length": true}

func c10GenEvalAll(r *rand.Rand) c10Case {
	var t c10Tmpl
	for {
		t = c10Compose(r, c10PickTmpl(r, false))
		if !c10NonTotal.MatchString(t.Expr) {
			break
		}
	}
	if r.IntN(4) == 0 {
		// the document root FIRST and then nodes inside it as one context: only the root carries eval-all's
		// "evaluate together" mark, the nodes behind it are still processed one by one
		var rf []c10Tmpl
		for _, u := range c10Tmpls {
			if u.Op == "union-root-first" {
				rf = append(rf, u)
			}
		}
		t = rf[r.IntN(len(rf))]
	}
	c := c10Case{Family: "O4-evalall", Expr: t.Expr, tmpl: t}
	c.NoSep = r.IntN(6) == 0
	txt, k := c10Doc(r, t.Shape)
	if r.IntN(5) != 0 {
		txt += "\n"
	}
	c.Files = []c10File{{Name: c10FileName(r, 0), Docs: []string{txt}, Kinds: []string{k}, Text: txt}}
	return c
}

func (p c10) runEvalAll(x *c10Exec, c *c10Case) c10Verdict {
	names, stdin, err := c10Write(x, c.Files)
	if err != nil {
		return c10Verdict{Verdict: mon.Inconclusive, Detail: "cannot write case files: " + err.Error()}
	}
	c.Cmd = c10CmdLine(c.Expr, names, c10Flags{All: true, NoSep: c.NoSep})
	e := x.run(c.Expr, names, c10Flags{NoSep: c.NoSep}, stdin)
	a := x.run(c.Expr, names, c10Flags{All: true, NoSep: c.NoSep}, stdin)
	if e.TimedOut || a.TimedOut {
		return c10Verdict{Verdict: mon.Inconclusive, Detail: "timed out"}
	}
	if !e.Failed && !a.Failed && c10RootCopiesOnly[c.Expr] && e.Stdout == "1\n1\n" && a.Stdout == "2\n" {
		return c10Verdict{Verdict: mon.Finding, Finding: c10FindingRootCopies, Detail: fmt.Sprintf("`%s`: eval collects each copy of the root on its own (1, 1), eval-all collects the two copies together (2)", c.Expr)}
	}
	if !e.Failed && !a.Failed && c.Expr == "(., ..) | length * 10" && len(c.Files) == 1 && len(c.Files[0].Docs) == 1 && c10ChildlessJSON(c.Files[0].Docs[0]) {
		// on a root without children `..` is the root again: the context is two copies of the root, the same
		// finding through the cross operator (`*` pairs every left result with every right result: 2 x 2)
		if l := strings.SplitAfter(e.Stdout, "\n"); len(l) == 3 && l[0] == l[1] && l[2] == "" && a.Stdout == l[0]+l[0]+l[0]+l[0] {
			return c10Verdict{Verdict: mon.Finding, Finding: c10FindingRootCopies, Detail: fmt.Sprintf("`%s` on a root without children: eval multiplies per copy of the root (2 results), eval-all pairs the two copies with each other (4 results)", c.Expr)}
		}
	}
	if e.Failed != a.Failed || (!e.Failed && e.Stdout != a.Stdout) {
		return c10Verdict{Verdict: mon.Violated, Detail: fmt.Sprintf("[%s] eval and eval-all disagree on a single document\n%s\neval     (failed=%v): %s %s\neval-all (failed=%v): %s %s",
			x.kind(), c.Cmd, e.Failed, c10Clip(e.Stdout), c10Clip(e.Stderr), a.Failed, c10Clip(a.Stdout), c10Clip(a.Stderr))}
	}
	if e.Failed {
		return c10Held("both fail", "error-doc")
	}
	return c10Held(fmt.Sprintf("%d bytes equal", len(e.Stdout)))
}

// c10ChildlessJSON reports whether the JSON text is a scalar or an empty container.
func c10ChildlessJSON(txt string) bool {
	var v any
	if json.Unmarshal([]byte(strings.TrimSpace(txt)), &v) != nil {
		return false
	}
	switch t := v.(type) {
	case map[string]any:
		return len(t) == 0
	case []any:
		return len(t) == 0
	}
	return true
}
