package props

import (
	"fmt"

	"github.com/mikefarah/yq/v4/pkg/yqlib"

	"verifharness/mon"
)

// c18StringEvaluator: one StringEvaluator object (the library's entry point for "expression + text in, text out")
// serves a sequence of evaluations - streams of several documents, expressions that ask where a node comes from,
// failing expressions in between. What it answers at step k is what an evaluator made for that step alone answers:
// the k-1 evaluations before leave nothing behind (no counters, no documents, no parsed state).
func c18StringEvaluator(w *mon.Worker, idx int) mon.Result {
	r := w.Rand(idx)
	res := mon.Result{Tags: []string{"family:string-evaluator-history"}, Nontrivial: true}
	texts := []string{"name: first\nitems: [1, 2]\n", "name: one\n---\nname: two\n", "a: 1\nb: {c: 2}\n---\n- x\n- y\n---\nlast\n", "[3, 1, 2]\n", "", "# only a comment\n", "k: &a 1\nl: *a\n"}
	exprs := []string{`.`, `file_index`, `fi`, `select(fi == 0) | .name`, `select(file_index == 0)`, `{"file": file_index, "doc": document_index}`, `[fi, di]`, `.items[] | select(fi == 0)`,
		`document_index`, `filename`, `.name`, `.. | select(kind == "scalar") | [., fi]`, `select(di == 1)`, `.zz | file_index`, `. as $d | [$d | fi]`, `[.. | file_index] | unique`,
		`.a.b.c = fi`, `.[0] |= fi`, `error("stop")`, `.name | test("[")`, `.items[5] // fi`, `"\(fi)-\(di)"`, `(.. | select(tag == "!!int")) |= . + fi`, `length`, `keys | .[] | [., fi]`}
	outs := []string{"yaml", "json", "props"}
	n := 3 + r.IntN(5)
	type step struct {
		Expr, Text, Out string
		All             bool
	}
	var steps []step
	for i := 0; i < n; i++ {
		steps = append(steps, step{exprs[r.IntN(len(exprs))], texts[r.IntN(len(texts))], outs[r.IntN(len(outs))], r.IntN(5) == 0})
	}
	res.Case = map[string]any{"steps": steps, "family": "string-evaluator-history"}
	res.Sig = fmt.Sprintf("strev|%v", steps)
	run := func(se yqlib.StringEvaluator, s step) (out string, err error, pan any) {
		defer func() {
			if x := recover(); x != nil {
				pan = x
			}
		}()
		f, ferr := yqlib.FormatFromString(s.Out)
		if ferr != nil {
			return "", ferr, nil
		}
		enc := f.EncoderFactory()
		dec := yqlib.YamlFormat.DecoderFactory()
		if s.All {
			out, err = se.EvaluateAll(s.Expr, s.Text, enc, dec)
		} else {
			out, err = se.Evaluate(s.Expr, s.Text, enc, dec)
		}
		return out, err, nil
	}
	shared := yqlib.NewStringEvaluator()
	positional := 0
	for i, s := range steps {
		got, e1, p1 := run(shared, s)
		want, e2, p2 := run(yqlib.NewStringEvaluator(), s)
		res.Evals += 2
		if p1 != nil || p2 != nil {
			if fmt.Sprint(p1) == fmt.Sprint(p2) {
				continue // a crash is C11's matter; here only: the same with and without a history
			}
			res.Verdict, res.Detail = mon.Violated, fmt.Sprintf("step %d `%s`: the evaluator with a history and a fresh one do not fail alike: %v / %v", i, s.Expr, p1, p2)
			return res
		}
		if (e1 == nil) != (e2 == nil) || (e1 != nil && e1.Error() != e2.Error()) || got != want {
			res.Verdict = mon.Violated
			res.Detail = fmt.Sprintf("step %d `%s` on %q (-o=%s, all=%v): the StringEvaluator that served steps 0..%d answers %q (err %v), a new StringEvaluator answers %q (err %v)\n steps: %+v",
				i, s.Expr, clipStr(s.Text, 80), s.Out, s.All, i-1, clipStr(got, 200), e1, clipStr(want, 200), e2, steps)
			return res
		}
		if i > 0 && e1 == nil {
			positional++
		}
	}
	res.Nontrivial = positional > 0
	res.Verdict, res.Detail = mon.Held, fmt.Sprintf("%d steps through one StringEvaluator, every answer as from a new one", n)
	return res
}
