package props

import (
	"bytes"
	"fmt"
	"strings"

	"verifharness/ref"
)

// Family C — `-e` / `--exit-status`: the status is 1 exactly when no result was produced or every
// result is null or false (in any spelling YAML resolves to !!null / !!bool false), else 0.
//
// "spelled" cases write the documents with YAML spellings (False, FALSE, ~, Null, "false" as a
// string, 0, [] …) and use path expressions whose results — including their spelling — an independent
// model predicts; the model is cross-checked against the same run with -o=json -I0 (disagreement =
// inconclusive). "computed" cases use boolean-valued expressions and take the value list from the
// -o=json -I0 run. Every case also requires: stdout with -e == stdout without -e, exit 1 comes with
// a message, and without -e the status is 0.
//
// Known finding C19-exit-status-false-spelling: printNode() recognises false only by the text
// "false". Matcher: expected status 1, observed 0, and the model with that quirk (a !!bool false
// counts as false only when spelled `false`) predicts 0 — i.e. every result is null/false and at
// least one is a False/FALSE; stdout and stderr as in the run without -e.

type c19SVal struct {
	text  string // YAML (flow) text
	json  string // what -o=json -I0 prints for it
	kind  int    // 0 scalar, 1 seq, 2 map
	null  bool
	falsy bool // !!bool false
	lower bool // falsy and spelled exactly `false`
	kids  []c19SVal
}

var c19SpelledScalars = []c19SVal{
	{text: "false", json: "false", falsy: true, lower: true},
	{text: "False", json: "false", falsy: true},
	{text: "FALSE", json: "false", falsy: true},
	{text: "true", json: "true"},
	{text: "True", json: "true"},
	{text: "TRUE", json: "true"},
	{text: "null", json: "null", null: true},
	{text: "Null", json: "null", null: true},
	{text: "NULL", json: "null", null: true},
	{text: "~", json: "null", null: true},
	{text: `"false"`, json: `"false"`},
	{text: `"null"`, json: `"null"`},
	{text: `""`, json: `""`},
	{text: "0", json: "0"},
	{text: "1", json: "1"},
	{text: "no", json: `"no"`},
	{text: "off", json: `"off"`},
	{text: "[]", json: "[]", kind: 1},
	{text: "{}", json: "{}", kind: 2},
	{text: "wordy", json: `"wordy"`},
}

func (c *c19ctx) spelledScalar(bias int) c19SVal {
	// bias 0: anything; 1: only null/false spellings (so that all-null/false result sets are frequent)
	if bias == 1 {
		return c19SpelledScalars[[]int{0, 1, 2, 6, 7, 8, 9, 1, 2}[c.r.IntN(9)]]
	}
	return c19SpelledScalars[c.r.IntN(len(c19SpelledScalars))]
}

func c19SSeq(kids []c19SVal) c19SVal {
	var t, j []string
	for _, k := range kids {
		t = append(t, k.text)
		j = append(j, k.json)
	}
	return c19SVal{text: "[" + strings.Join(t, ", ") + "]", json: "[" + strings.Join(j, ",") + "]", kind: 1, kids: kids}
}

type c19SDoc struct {
	a, b, l c19SVal
	hasB    bool
}

func (d c19SDoc) text() string {
	s := `{"a": ` + d.a.text
	if d.hasB {
		s += `, "b": ` + d.b.text
	}
	return s + `, "l": ` + d.l.text + "}"
}

type c19SExpr struct {
	src  string
	eval func(d c19SDoc) []c19SVal
	ea   bool
}

var c19NullVal = c19SVal{text: "null", json: "null", null: true}

var c19SExprs = []c19SExpr{
	{".a", func(d c19SDoc) []c19SVal { return []c19SVal{d.a} }, true},
	{".b", func(d c19SDoc) []c19SVal {
		if d.hasB {
			return []c19SVal{d.b}
		}
		return []c19SVal{c19NullVal}
	}, true},
	{".zz", func(d c19SDoc) []c19SVal { return []c19SVal{c19NullVal} }, true},
	{".a, .zz", func(d c19SDoc) []c19SVal { return []c19SVal{d.a, c19NullVal} }, false},
	{".l[]", func(d c19SDoc) []c19SVal { return d.l.kids }, true},
	{".[]", func(d c19SDoc) []c19SVal {
		r := []c19SVal{d.a}
		if d.hasB {
			r = append(r, d.b)
		}
		return append(r, d.l)
	}, true},
	{".l[0]", func(d c19SDoc) []c19SVal {
		if len(d.l.kids) > 0 {
			return []c19SVal{d.l.kids[0]}
		}
		return []c19SVal{c19NullVal}
	}, false}, // eval-all evaluates the index once per document over ALL documents (C01's business)
}

var c19ComputedExprs = []string{
	".a == .b", ".a != .b", `has("a")`, `has("zz")`, ".l | length > 1", ".l | any", ".l | all", ".a and .b", ".a or .b",
	".a | not", "(.l | length) == 0", ".l | length", `.a == "wordy"`, `.l | map(. == null)| .[]`, `.l | contains(["wordy"])`,
}

func c19NullOrFalseJSON(v *ref.V) bool { return v.K == ref.Null || (v.K == ref.Bool && !v.B) }

func (c *c19ctx) familyC() {
	sub := c.idx / len(c19Families)
	if sub%8 == 7 {
		c.exitStatusNullInput()
		return
	}
	computed := sub%3 == 2
	c.group = "C-spelled"
	if computed {
		c.group = "C-computed"
	}
	bias := 0
	if c.r.IntN(2) == 0 {
		bias = 1
	}
	nf := 1 + c.r.IntN(2)
	var docs []c19SDoc
	var args []string
	for fi := 0; fi < nf; fi++ {
		nd := 1 + c.r.IntN(3)
		var sb strings.Builder
		for di := 0; di < nd; di++ {
			d := c19SDoc{a: c.spelledScalar(bias), b: c.spelledScalar(bias), hasB: c.r.IntN(4) != 0}
			var kids []c19SVal
			for n := c.r.IntN(4); n > 0; n-- {
				kids = append(kids, c.spelledScalar(bias))
			}
			d.l = c19SSeq(kids)
			docs = append(docs, d)
			if di > 0 {
				sb.WriteString("---\n")
			}
			sb.WriteString(d.text() + "\n")
		}
		name := fmt.Sprintf("e%d.yaml", fi)
		c.write(name, sb.String())
		args = append(args, name)
	}
	ea := c.r.IntN(4) == 0
	var expr string
	var model []c19SVal
	haveModel := false
	if computed {
		expr = c19ComputedExprs[c.r.IntN(len(c19ComputedExprs))]
		c.tag("mode:computed")
	} else {
		var e c19SExpr
		for {
			e = c19SExprs[c.r.IntN(len(c19SExprs))]
			if !ea || e.ea {
				break
			}
		}
		expr = e.src
		for _, d := range docs {
			model = append(model, e.eval(d)...)
		}
		haveModel = true
		c.tag("mode:spelled")
	}
	var mode []string
	if ea {
		mode = []string{"ea"}
		c.tag("mode:ea")
	}
	c.tag("expr:" + expr)
	c.note("expr", expr)
	// reference value list
	rx := c.yq(nil, append(append(append([]string{}, mode...), "-o=json", "-I0", expr), args...)...)
	if rx.TimedOut {
		return
	}
	if rx.Exit != 0 {
		if computed {
			c.say("expression fails on these documents: " + clipStr(string(rx.Stderr), 120))
			c.tag("computed_expr_error")
			c.failedProperly(rx, "computed expression "+expr)
			return
		}
		c.inconclusive("reference run failed for a path expression: %s", clipStr(string(rx.Stderr), 200))
		return
	}
	vals, err := ref.ParseJSONStream(string(rx.Stdout))
	if err != nil {
		c.inconclusive("reference output is not JSON: %v", err)
		return
	}
	if haveModel {
		agree := len(vals) == len(model)
		for i := 0; agree && i < len(vals); i++ {
			agree = vals[i].JSON() == model[i].json
		}
		if !agree {
			c.tag("model_reference_disagree")
			c.inconclusive("the spelled model predicts %d results, `-o=json -I0` shows %s", len(model), clipStr(string(rx.Stdout), 300))
			return
		}
	}
	expect := 1
	for _, v := range vals {
		if !c19NullOrFalseJSON(v) {
			expect = 0
		}
	}
	quirk := expect
	if haveModel {
		quirk = 1
		for _, m := range model {
			if !(m.null || (m.falsy && m.lower)) {
				quirk = 0
			}
		}
	}
	outFmt := []string{"yaml", "yaml", "json", "props"}[c.r.IntN(4)]
	eflag := []string{"-e", "--exit-status", "-e=true"}[c.r.IntN(3)]
	var fl []string
	if outFmt != "yaml" {
		fl = append(fl, "-o="+outFmt)
	}
	// companions: flags that change HOW results are printed must not change WHETHER they count
	for _, comp := range []struct {
		flag string
		one  int
	}{{"-0", 3}, {"-N", 4}, {"--unwrapScalar=false", 4}, {"-P", 5}, {"-C", 6}, {"-M", 6}, {"-I0", 5}} {
		if c.r.IntN(comp.one) == 0 {
			fl = append(fl, comp.flag)
			c.tag("companion:" + comp.flag)
		}
	}
	c.tag("out:"+outFmt, "flag:"+eflag, fmt.Sprintf("results:%d", min(len(vals), 4)), fmt.Sprintf("expect_status:%d", expect))
	base := c.yq(nil, append(append(append(append([]string{}, mode...), fl...), expr), args...)...)
	test := c.yq(nil, append(append(append(append(append([]string{}, mode...), eflag), fl...), expr), args...)...)
	if base.TimedOut || test.TimedOut {
		return
	}
	what := fmt.Sprintf("%s %s over %d document(s), results %s", eflag, expr, len(docs), clipStr(strings.ReplaceAll(strings.TrimSpace(string(rx.Stdout)), "\n", " "), 160))
	c.res.Nontrivial = len(vals) > 0 || len(docs) > 1
	if base.Exit != 0 {
		c.violate("%s: the run WITHOUT -e exits %d: %s", what, base.Exit, clipStr(string(base.Stderr), 200))
		return
	}
	if c19Crashed(test) {
		c.violate("%s: crash: %s", what, clipStr(string(test.Stderr), 400))
		return
	}
	if !bytes.Equal(base.Stdout, test.Stdout) {
		c.violate("%s: stdout with -e differs from stdout without it: %q vs %q", what, clipStr(string(test.Stdout), 300), clipStr(string(base.Stdout), 300))
		return
	}
	if test.Exit == expect {
		if expect == 1 && len(bytes.TrimSpace(test.Stderr)) == 0 {
			c.violate("%s: exit 1 without a message on stderr", what)
			return
		}
		c.say(fmt.Sprintf("%s -> exit %d as required", what, test.Exit))
		return
	}
	if haveModel && expect == 1 && test.Exit == 0 && quirk == 0 && len(test.Stderr) == 0 {
		c.finding("C19-exit-status-false-spelling", "%s: every result is null or false, so the status must be 1; yq exits 0 because a false spelled False/FALSE is not recognised", what)
		return
	}
	c.violate("%s: exit status %d, expected %d (1 <=> no result or every result null/false); stderr=%q", what, test.Exit, expect, clipStr(string(test.Stderr), 200))
}

// exitStatusNullInput: -e together with -n.
func (c *c19ctx) exitStatusNullInput() {
	c.group = "C-nullinput"
	cases := []struct {
		e string
		x int
	}{
		{"false", 1}, {"null", 1}, {"1", 0}, {`"x"`, 0}, {"[]", 0}, {"[] | .[]", 1}, {"false, 1", 0}, {"false, null", 1}, {"0", 0}, {`""`, 0},
		{"1 == 2", 1}, {"1 == 1", 0}, {".a", 1}, {`{"a": false}`, 0}, {`{"a": false} | .a`, 1}, {"[false, null] | .[]", 1}, {"[false, 3] | .[]", 0},
	}
	k := cases[c.r.IntN(len(cases))]
	c.tag("mode:null-input", "expr:"+k.e, fmt.Sprintf("expect_status:%d", k.x))
	args := []string{"-n", "-e", k.e}
	if c.r.IntN(2) == 0 {
		args = []string{"-e", "-n", "-o=json", k.e}
	}
	if c.r.IntN(3) == 0 {
		args = append([]string{"ea"}, args...)
	}
	x := c.yq(nil, args...)
	if x.TimedOut {
		return
	}
	c.res.Nontrivial = true
	switch {
	case c19Crashed(x):
		c.violate("-n -e %s: crash: %s", k.e, clipStr(string(x.Stderr), 300))
	case x.Exit != k.x:
		c.violate("-n -e %s: exit status %d, expected %d; stdout=%q stderr=%q", k.e, x.Exit, k.x, clipStr(string(x.Stdout), 200), clipStr(string(x.Stderr), 200))
	case k.x == 1 && len(bytes.TrimSpace(x.Stderr)) == 0:
		c.violate("-n -e %s: exit 1 without a message", k.e)
	default:
		c.say(fmt.Sprintf("-n -e %s -> exit %d as required", k.e, x.Exit))
	}
}
