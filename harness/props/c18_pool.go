package props

import (
	"os"
	"path/filepath"
	"regexp"
	"sort"
	"strings"
)

// ---------------------------------------------------------------------------------------------
// C18 pool: fixed documents (written into the worker's scratch directory), fixed expressions and
// the (expression, files, input format, output format, eval|eval-all|null-input) entries built
// from them. Nothing here is random: a case only draws indices into this pool.
// ---------------------------------------------------------------------------------------------

// Environment handed to the real binary and set (os.Setenv) in the worker before any in-process
// evaluation. C18_UNSET is deliberately never set.
var c18Env = []string{"C18_A=alpha", "C18_B=b b", "C18_EMPTY=", "C18_N=42"}

type c18Doc struct {
	Name  string // file name inside the scratch directory
	Fmt   string // input format (-p)
	Group string // which expression group applies
	Text  string
	Multi bool // more than one document (or zero): never used with a shared printer
}

var c18Docs = []c18Doc{
	{Name: "d_map.yaml", Fmt: "yaml", Group: "M", Text: `# head comment
name: alpha # line comment
zeta: 1
beta: [3, 1, 2, 1]
gamma: {x: 1, y: two, z: [true, null]}
delta: "${C18_A} and ${C18_EMPTY:-dflt} and ${C18_B}"
unset: "u=${C18_UNSET}."
empty: "e=${C18_EMPTY}."
eps: 2021-06-01T10:20:30Z
eta: &anc {p: 1, q: 2}
theta: *anc
iota: "a,b,c"
kappa: 3.5
lambda: ~
mu: "x: 1\ny: [1, 2]\n"
nu: '{"j": [1, 2, {"k": null}]}'
xi: "PGE+aGk8L2E+"
omicron: "<r a=\"1\"><c>t</c><c>u</c></r>"
pi: "k1=v1\nk2.sub=v2\n"
rho: "h1,h2\n1,2\n3,4\n"
fileref: f.yaml
sep: ","
re: "^al"
tzname: Australia/Sydney
fmt: "2006-01-02"
k: name
# foot comment
`},
	{Name: "d_map2.yaml", Fmt: "yaml", Group: "M", Text: `zeta: 7
name: "second doc"
beta: [10, 30, 20]
gamma:
  y: deux
  x: 11
  z: [false]
  w: extra
delta: "$C18_A/${C18_N}"
unset: "${C18_UNSET:-fallback}"
empty: "${C18_EMPTY}"
eps: 1999-12-31T23:59:59Z
eta: &anc
  p: 5
theta: *anc
iota: "q"
kappa: -0.25
lambda: null
mu: "- 1\n- 2\n"
nu: '[]'
xi: "eDogMQo="
omicron: "<r/>"
pi: "a=b\n"
rho: "h1\tx\n"
fileref: f_multi.yaml
sep: "q"
re: "doc$"
tzname: America/New_York
fmt: "Jan 2 15h"
k: gamma
`},
	{Name: "d_arr.yaml", Fmt: "yaml", Group: "A", Text: `- {name: foo, grp: a, n: 3, tags: [x, y]}
- {name: bar, grp: b, n: 1, tags: [y]}
- {name: baz, grp: a, n: 2, tags: []}
- {name: qux, grp: c, n: 1, tags: [z, x]}
- {name: foo, grp: b, n: 5, tags: [x]}
- {name: quux, grp: d, n: 8}
- {name: corge, grp: e, n: 13}
- {name: grault, grp: a, n: 21}
- {name: garply, grp: f, n: 34}
- {name: waldo, grp: g, n: 55}
`},
	{Name: "d_arr2.yaml", Fmt: "yaml", Group: "A", Text: `- name: one
  grp: z
  n: 9
  tags: [t1]
- name: two
  grp: y
  n: 9
- name: three
  grp: z
  n: -1
  tags: [t2, t1]
`},
	{Name: "d_multi.yaml", Fmt: "yaml", Group: "MULTI", Multi: true, Text: `a: 1
b: {c: 2}
---
a: 10
b: {c: 20}
---
# third
a: 100
b: {c: 200, d: [1]}
`},
	{Name: "d_cmt.yaml", Fmt: "yaml", Group: "MULTI", Multi: true, Text: "# only a comment\n"},
	{Name: "d_empty.yaml", Fmt: "yaml", Group: "MULTI", Multi: true, Text: ""},
	{Name: "d.json", Fmt: "json", Group: "J", Text: `{"k9":1,"k3":"s","k7":[1,2,{"a":null}],"k1":{"z":1,"a":2,"m":{"q":[]}},"k5":true,"k2":1.5,"k8":"${C18_A}","k4":null,"k6":"2020-01-02T03:04:05Z","k0":123456789012}
`},
	{Name: "d2.json", Fmt: "json", Group: "J", Text: `{"k1":{"a":[3,2,1],"b":{"c":"d"}},"k7":["x"],"k3":"t","k9":-5,"k8":"${C18_B}-${C18_N}","k2":0.5,"k0":0,"k4":"n","k5":false,"k6":"2000-02-29T00:00:00Z"}
`},
	{Name: "d.properties", Fmt: "props", Group: "P", Text: `# props comment
app.name = demo
app.ports.0 = 80
app.ports.1 = 443
app.debug = false
db.url = jdbc:x://h/db
db.pool.max = 10
zz = last
aa = first
`},
	{Name: "d.csv", Fmt: "csv", Group: "C", Text: "name,n,flag\nann,30,true\nbob,4,false\ncyd,17,true\n"},
	{Name: "d.tsv", Fmt: "tsv", Group: "C", Text: "name\tn\tflag\nann\t30\ttrue\nbob\t4\tfalse\n"},
	// records under OTHER column names (a row-wise encoder that serves both must write each under its own header)
	{Name: "d2.csv", Fmt: "csv", Group: "C2", Text: "id,colour\n7,red\n8,blue\n"},
	// TOML files whose tables share names: an array of tables in one, a plain table path through the same name in the other
	{Name: "d_aot.toml", Fmt: "toml", Group: "T2", Text: "[[fruits]]\nname = \"apple\"\n\n[[fruits]]\nname = \"pear\"\n\n[owner]\nname = \"o\"\n"},
	{Name: "d_sub.toml", Fmt: "toml", Group: "T2", Text: "[fruits.physical]\ncolor = \"red\"\n\n[owner.address]\ncity = \"c\"\n"},
	// a Lua script that sets globals and returns nothing: the globals are the document, in assignment order
	{Name: "d_globals.lua", Fmt: "lua", Group: "L2", Text: "name = \"glob\"\nn = 3\nlist = {1, 2}\nflag = true\nzz = \"q\"\nother = 1.5\nlast = \"w\"\n"},
	{Name: "d.xml", Fmt: "xml", Group: "X", Text: `<?xml version="1.0" encoding="UTF-8"?>
<!-- top comment -->
<root version="2">
  <item id="1" kind="a">first</item>
  <item id="2" kind="b">second</item>
  <meta><k>v</k><e/></meta>
  <n>5</n>
</root>
`},
	{Name: "d.toml", Fmt: "toml", Group: "T", Text: `title = "demo"
count = 3
ratio = 0.5
[owner]
name = "n"
tags = ["a", "b"]
[[items]]
id = 1
[[items]]
id = 2
[db.pool]
max = 10
`},
	{Name: "d.lua", Fmt: "lua", Group: "L", Text: `return {
	name = "demo";
	list = {1, 2, 3};
	nested = { a = true, b = "s" };
	n = 1.5;
}
`},
	{Name: "d.b64", Fmt: "base64", Group: "S", Text: "aGVsbG8gd29ybGQ="},
	{Name: "d.uri", Fmt: "uri", Group: "S", Text: "a%20b%26c%3Dd"},
}

// files only the load operators read
var c18LoadFiles = map[string]string{
	"f.yaml":       "k: loaded\nlist: [1, 2]\n",
	"f_multi.yaml": "a: first\n---\na: second\n",
	"f.txt":        "plain text\nsecond line\n",
	"f.properties": "p.q = 1\np.r = two\n",
	"f.xml":        "<l><m n=\"1\">o</m></l>\n",
	"f.b64":        "bG9hZGVkIGI2NA==",
	"g.yaml":       "k: other\nlist: [9]\nextra: true\n",
}

// expressions per document group
var c18Exprs = map[string][]string{
	"M": {
		`.`, `.name`, `.gamma.z[0]`, `.beta | sort`, `.beta | unique`, `.beta | reverse`, `.beta | length`, `keys`, `sort_keys(.)`,
		`sort_keys(..)`, `to_entries`, `with_entries(.value |= tag)`, `to_entries | from_entries`, `.gamma * .eta`,
		`. * {"gamma": {"w": 9}}`, `.eta *+ {"p": [1]}`, `.gamma *d {"z": [9]}`, `.. | select(tag == "!!int")`,
		`[.. | select(kind == "scalar")] | length`, `.beta |= map(. * 2)`, `.beta[1:3]`, `del(.gamma)`, `del(.. | select(. == 1))`,
		`.zeta += 5`, `.new = .name + "-x"`, `.name |= upcase`, `.name | test("^al")`, `.name | sub("a", "A")`,
		`.name | match("(?P<f>l)(p)?")`, `.name | capture("(?P<f>l)")`, `.iota | split(",")`, `.iota | split(",") | join("-")`,
		`.mu | from_yaml`, `.nu | from_json`, `.nu |= from_json`, `.xi | @base64d`, `.omicron | from_xml`, `.pi | from_props`,
		`.rho | from_csv`, `.rho | @tsvd`, `.gamma | to_json`, `.gamma | @json`, `.gamma | to_yaml`, `.gamma | to_props`, `.gamma | to_xml`,
		`.gamma | @xml`, `.beta | @csv`, `.beta | @tsv`, `.name | @sh`, `.name | @base64`, `.delta | @uri`, `.delta | @uri | @urid`,
		`.gamma | to_json(0)`, `.gamma | to_yaml(4)`, `.gamma | to_xml(1)`, `.eps | format_datetime("Monday, 02-Jan-06 at 3:04PM")`,
		`.eps |= tz("Australia/Sydney")`, `.eps += "3h10m"`, `.eps | to_unix`, `1622542830 | from_unix`, `.eps -= "1h"`,
		`with_dtf("2006-01-02"; "2021-06-01" | format_datetime("Jan 2"))`,
		`"v=\(.zeta) n=\(.name)"`, `"\(.beta)"`, `"\(.gamma.y)-\(.kappa)" | upcase`, `.a.b.c = 1`, `.gamma.y |= "three"`,
		`with(.gamma; .x = 5 | .n = "k")`, `with(.beta[]; . = . + 1)`, `eval(".gamma.y")`, `eval(".iota" | . + " | length")`,
		`.zeta as $z | .beta | map(. + $z)`, `.beta[] as $i ireduce (0; . + $i)`, `explode(.)`, `.theta | explode(.)`, `.eta | anchor`,
		`.theta | alias`, `.eta anchor = "new"`, `.name | line_comment`, `. | head_comment`, `.zeta line_comment = "hi"`, `... comments = ""`,
		`.. style = "double"`, `.beta style = "flow"`, `.gamma style = ""`, `.name | style`, `.zeta tag = "!!str"`, `.kappa | tag`,
		`.lambda // "dflt"`, `.missing // .name`, `.zeta == 1`, `.kappa > 3`, `.name < "b"`, `.zeta and .lambda`, `.beta | any`,
		`.beta | all_c(. > 0)`, `.beta | contains([3])`, `has("name")`, `.beta | has(9)`, `[.. | path | join(".")]`, `.gamma | keys`,
		`.beta | min`, `.beta | max`, `pick(["name", "zeta"])`, `omit(["delta", "mu", "nu"])`, `[.beta, [.zeta, [1]]] | flatten`,
		`[.beta, [.zeta, [1]]] | flatten(1)`, `{"a": .name, "b": .beta}`, `[.name, .zeta]`, `.beta | .[] | select(. > 1)`,
		`"12" | to_number`, `.zeta | to_string`, `.name | length`, `.name | kind`, `[.. | key]`, `.gamma.x | parent | keys`,
		`.gamma.x | parent(2) | .name`, `.beta | map(select(. != 1))`, `.beta | filter(. < 3)`, `.gamma | map_values(tag)`,
		`.beta | array_to_map`, `setpath(["a", "b"]; 3)`, `delpaths([["beta", 0], ["gamma", "x"]])`, `.gamma | to_entries | map(.key)`,
		`.zeta | line`, `.kappa | column`, `filename`, `file_index`, `document_index`, `.beta | sort_by(.)`, `select(.zeta == 1) | .name`,
		`.beta[] | split_doc`, `(.a, .b) = 3`, `.beta | group_by(. > 1)`, `.beta | unique_by(. % 2)`, `.zeta % 2`, `.kappa / 2`,
		`.kappa - 1`, `.zeta * 2.5`, `.beta + [4]`, `.gamma + {"n": 1}`, `.beta - [1]`, `.name + .iota`, `[.beta[] | . * .]`,
		`.gamma.z[] |= not`, `(.beta[] | select(. == 1)) = 100`, `.beta | to_entries`, `.beta | keys`, `.gamma | length`,
		`.gamma | to_entries | sort_by(.value | tag) | from_entries`, `.eta == .theta`, `.theta.p`, `.. | select(alias == "anc") | key`,
		`[.[] | tag] | unique`, `[.[] | kind] | group_by(.) | map(length)`, `.name | trim | downcase`,
		// a literal whose result is mutated afterwards: the tree must come out of the evaluation unchanged
		`.a = ("x" | . += "y")`, `.n = (1 | . |= . + 1)`, `.s = ("lit" | . style = "single")`, `.t = ([1, 2] | .[0] = 9)`,
		`.m = ({"k": "v"} | .k = "w" | .j = 1)`, `("abc" | . tag = "!foo")`, `.q = (3 | . line_comment = "three")`, `[1, 2, 3] | .[] |= . + 1`,
		`{"a": {"b": 1}} | .a.b += 1 | .a.c = "z"`, `"lit" as $v | .r = $v | .r |= . + "!"`, `.o = ("base" | sub("b", "B"))`,
		// operator arguments that come from the document: a kept tree must evaluate them afresh for every document
		`.sep as $s | .iota | split($s)`, `.sep as $s | .beta | join($s)`, `.re as $r | .name | test($r)`, `.re as $r | .name | sub($r, "X")`,
		`.tzname as $t | .eps | tz($t)`, `.fmt as $f | .eps | format_datetime($f)`, `.k as $k | has($k)`, `.k as $k | pick([$k])`, `.k as $k | .[$k]`,
		`.k as $k | del(.[$k]) | keys | length`, `.re as $r | [.[] | select(tag == "!!str") | select(test($r))]`, `.eps | tz("UTC")`, `.eps | tz("America/New_York")`,
		`.k as $k | to_entries | map(select(.key == $k)) | from_entries`, `.sep as $s | "a\($s)b"`, `eval("." + .k)`, `.k as $k | with(.[$k]; . = "w")`,
		// the same, but the argument is a string LITERAL with an interpolation: it still depends on the document
		`.re as $r | .name | test("\($r)")`, `.name | test("\(.re)")`, `.re as $r | .name | sub("\($r)", "X")`, `.re as $r | .name | match("\($r)") | .string`,
		`.re as $r | [.[] | select(tag == "!!str") | select(test("\($r)"))]`, `.sep as $s | .iota | split("\($s)")`, `.sep as $s | .beta | join("\($s)")`,
		`.k as $k | has("\($k)")`, `.k as $k | pick(["\($k)"])`, `.tzname as $t | .eps | tz("\($t)")`, `.k as $k | .["\($k)"]`, `.name as $n | .name | capture("(?P<x>\($n))") | .x`,
		`.k as $k | sort_keys(.[$k])`, `.fmt as $f | with_dtf($f; "2021-06-01" | format_datetime("2006"))`, `.k as $k | path(.[$k])`, `.k as $k | setpath([$k]; 0) | .[$k]`,
		// envsubst in every flavour (C18_UNSET is never set, C18_EMPTY is set to "")
		`.delta |= envsubst`, `.delta | envsubst`, `.delta |= envsubst(ne)`, `.delta |= envsubst(nu)`, `.delta |= envsubst(ne, nu)`,
		`.delta |= envsubst(ne,nu,ff)`, `.delta |= envsubst(ff)`, `.unset | envsubst`, `.unset | envsubst(nu)`, `.unset | envsubst(ne)`,
		`.empty | envsubst`, `.empty | envsubst(ne)`, `.empty | envsubst(nu)`, `.empty | envsubst(nu,ne)`, `"${C18_A}-${C18_N}" | envsubst`,
		`"${C18_EMPTY}" | envsubst(ne)`, `"${C18_UNSET}" | envsubst(nu)`, `"${C18_UNSET} ${C18_EMPTY}" | envsubst(ne,nu,ff)`,
		`"${C18_UNSET} ${C18_EMPTY}" | envsubst(ne,nu)`, `[.delta, .unset, .empty] | map(envsubst)`, `(.. | select(tag == "!!str")) |= envsubst`,
		`.zeta | envsubst`, `with(envsubst)`, `with(envsubst(ne))`,
		// load operators on files of the scratch directory
		`load("f.yaml")`, `load("f.yaml").k`, `.inc = load("f.yaml")`, `load("f_multi.yaml")`, `load("g.yaml") * load("f.yaml")`,
		`load_str("f.txt")`, `.t = load_str("f.txt")`, `load_props("f.properties")`, `load_xml("f.xml")`, `load_base64("f.b64")`,
		`load("missing.yaml")`, `load(.fileref)`, `.x = load(.fileref) | .y = load("g.yaml").extra`, `load("d.json").k1`,
		`[load("f.yaml"), load("g.yaml")] | map(.k)`, `load_xml("f.xml").l.m`, `load_str("f.b64") | @base64d`,
		// run-time failures
		`.name.x`, `.beta + .gamma`, `.name - 1`, `error("boom")`, `.beta | from_json`, `"abc" | to_number`, `.name | tz("UTC")`,
		`.eps | format_datetime(1)`, `.gamma | @csv`, `.beta | .[] | error(.)`, `.name | from_xml | .x`, `.zeta | split(",")`,
		`setpath(.name)`, `.beta[] as $x ireduce (.name)`, `.gamma | pivot`, `.name | @base64d`, `.name as $x | $y`,
		// parse failures (the parser must be exactly as before afterwards)
		`.a |`, `(.a`, `.a]`, `envsubst(`, `[.a`, `{`, `.a = = 1`, `"unterminated`, `)`, `.[`, `.a | | .b`, `1 +`, `.a )( .b`,
		`envsubst(ne`, `envsubst(xx)`, `load(`, `flatten(x)`, `.a as`, `ireduce`, `.. | select(`, `{"a": }`, `0x`, `.a ? ?`, `]]`, `|`,
	},
	"A": {
		`.`, `sort_by(.n)`, `sort_by(.grp, .n)`, `sort_by(.name) | reverse`, `group_by(.grp)`,
		`group_by(.grp) | map({"g": .[0].grp, "names": map(.name)})`, `unique_by(.name)`, `unique_by(.grp) | map(.name)`, `map(.n) | unique`,
		`map(.tags) | flatten | unique`, `pivot`, `map(pick(["name", "n"])) | pivot`,
		// ragged records: several keys that only later records have (their columns come in order of first appearance)
		`(map(pick(["name"])) + [{"p": 1, "q": 2, "r": 3, "s": 4, "t": 5}]) | pivot`, `([{"first": 0}] + .) | pivot | keys`,
		`[{"a": 1}, {"f": 6, "e": 5, "d": 4, "c": 3, "b": 2}, {"g": 7, "h": 8}] | pivot | to_json(0)`, `.[] | select(.n > 2) | .name`,
		`map(select(.tags | contains(["x"])))`, `[.[] | .n] | sort`, `map(.n) | min`, `map(.n) | max`,
		`.[] as $i ireduce ({}; .[$i.grp] += [$i.name])`, `map(.name) | join(",")`, `.[0] * .[1]`, `.[2:5] | map(.name)`,
		`map(keys) | flatten | unique`, `map(to_entries | length)`, `map(with_entries(select(.key != "tags")))`, `map([.name, .n]) | @csv`,
		`map([.name, .grp, .n]) | @tsv`, `to_json(0)`, `length`, `.[] | [.name, (.tags // [] | length)]`, `sort_by(.tags | length)`,
		`map(.n * 2)`, `.[] |= (.n += 1)`, `del(.[] | select(.grp == "a"))`, `map(has("tags"))`, `[.[] | key]`, `map(.name | upcase)`,
		`.[1].tags[0]`, `any_c(.n > 30)`, `all_c(has("name"))`, `map(.grp) | group_by(.) | map(length)`, `to_entries | map(.key)`,
		`map(.name) | sort | reverse`, `.[-1]`, `.[-3:]`, `map(.n) | .[] as $x ireduce (1; . * $x)`, `map(.grp) | unique | length`,
		`sort_by(.n) | map(.name) | .[0:3]`, `group_by(.n) | map(map(.name))`, `map({(.name): .n}) | .[] as $i ireduce ({}; . * $i)`,
		`map(select(.n == 1)) | map(.name)`, `[.[] | select(has("tags")) | .tags[]] | group_by(.) | map({"t": .[0], "c": length})`,
		`map(.name) | unique | sort`, `map(.n) | sort | reverse | .[0]`, `.[] | select(.name == "foo") | .grp`, `map(.tags // ["none"]) | map(.[0])`,
		`map(omit(["tags"])) | sort_by(.grp) | map(.name + ":" + .grp)`, `with(.[0]; .n = 0 | .grp = "zz") | sort_by(.grp) | map(.name)`,
		`map("\(.name)=\(.n)") | join(";")`, `map(to_json(0))`, `map(@json) | map(from_json) | map(.n)`, `.[0] | to_props`, `.[0:2] | to_xml`,
		`map(.n) | @sh`, `map(.name) | @sh`, `[.[].name | @base64 | @base64d]`, `to_entries | map(select(.key % 2 == 0) | .value.name)`,
		`map(.n) | contains([34, 1])`, `.[] | select(.tags | length > 1) | .tags | join("+")`, `map(.n % 3) | unique`,
		`.[0].tags + .[3].tags | unique`, `.[0] * {"n": 0, "extra": {"deep": [1]}}`, `(.[] | select(.grp == "a") | .n) |= . * 10`,
		`[.[] | select(.n > 1) | {"k": .name}] | .[] as $i ireduce ([]; . + [$i.k])`, `map(.n) | map(. > 4) | any`, `map(.n) | map(. > 0) | all`,
		`map(.name) | map(length)`, `sort_keys(..)`, `.[] |= sort_keys(.)`, `map(keys | sort)`, `map(.name | test("^g"))`, `map(.name | sub("o+", "0"))`,
		`flatten`, `[.[] | .tags] | flatten(1)`, `.[9]`, `.[99]`, `.[1] | parent | length`, `map(.n) | join("+") | eval(.)`, `.[] | split_doc | .name`,
		`map(.grp) | array_to_map`, `group_by(.grp) | map(length) | sort`, `map(.tags | length)`, `sort_by(.name, .grp) | map(.grp)`,
	},
	"MULTI": {
		`.`, `.a`, `.b.c`, `.a += 1`, `document_index`, `di`, `select(di == 1)`, `select(document_index > 0) | .a`, `[.a, di]`, `.b | keys`,
		`.b.d // "none"`, `head_comment`, `. as $d | $d.a`, `{"doc": di, "a": .a}`, `.a as $x | .b.c + $x`, `to_json(0)`, `.b | to_props`,
		`.b *= {"e": 1}`, `del(.b)`, `(.. | select(tag == "!!int")) |= . + 1`, `load("f_multi.yaml") | .[] | .a`, `.a | envsubst`, `.b | @json | envsubst(ne)`,
		`filename`, `file_index`, `"\(.a)-\(di)"`, `.x = "new"`, `.. | select(kind == "scalar")`, `.b | to_entries`, `sort_keys(..)`, `.a | split_doc`,
	},
	"J": {
		`.`, `keys`, `sort_keys(.)`, `sort_keys(..)`, `to_entries`, `to_entries | map(.key) | sort`, `.k1 * {"z": 2, "m": {"r": 1}}`, `.k7`, `.k8 | envsubst`,
		`.k8 | envsubst(ne)`, `.k8 | envsubst(nu,ff)`, `with_entries(select(.value | kind == "scalar"))`, `with_entries(.key |= upcase)`,
		`.k1 | keys`, `.k1 | to_entries | sort_by(.key) | from_entries`, `[.. | select(tag == "!!int")]`, `[.. | select(tag == "!!str")] | sort`,
		`.k6 | format_datetime("2006-01-02")`, `.k6 += "24h"`, `.k0 + 1`, `.k2 * 2`, `.k9 - .k2`, `.k5 and true`, `.k4 // "alt"`, `del(.k1)`,
		`pick(["k9", "k3", "k5"])`, `omit(["k1", "k7"])`, `. * {"k1": {"z": 5}}`, `.k7 | length`, `.k7[] | tag`, `[.[] | tag] | group_by(.) | map({(.[0]): length})`,
		`to_json(0)`, `@json`, `to_yaml`, `to_props`, `to_xml`, `.k1 | to_xml`, `.k7 | @csv`, `.k3 | @base64 | @base64d`, `.k3 | @sh`, `.k3 | @uri`,
		`"\(.k3)/\(.k9)/\(.k5)"`, `keys | map(sub("k", "") | to_number) | sort`, `keys | length`, `[keys[] | select(. > "k4")]`, `to_entries | map(.value | tag) | unique`,
		`.k1.m`, `.k1.m.q // "empty"`, `(.k1 | .. | select(tag == "!!int")) |= . * 100`, `.new = (keys | join(""))`, `path(.k1.m)`, `.k1 | pivot`,
		`.k7 | reverse`, `.k7 | map(tag)`, `with(.k1; .a = 0)`, `eval(".k" + "3")`, `.k3 | test("s|t")`, `load("f.yaml") * .k1`, `.k1 *= load("g.yaml")`, `.k0 | tag`,
	},
	"P": {
		`.`, `keys`, `.app`, `.app.ports`, `.app.ports | length`, `.db | to_entries`, `sort_keys(..)`, `.app.ports[] | . + 1`, `[.. | select(kind == "scalar")]`,
		`.app.debug`, `.db.pool.max * 2`, `to_entries | map(.key)`, `.zz + .aa`, `with_entries(.key |= upcase)`, `.app.name |= upcase`, `del(.db)`,
		`.app *= {"ports": [8080]}`, `.. | select(tag == "!!int")`, `to_props`, `to_json(0)`, `.db.url | split("/")`, `"\(.app.name):\(.app.ports[0])"`,
		`.app.name | envsubst`, `load_props("f.properties") * .`, `. * load_props("f.properties")`, `head_comment`, `.app | pivot`, `[.. | path | join(".")] | sort`,
	},
	"C": {
		`.`, `.[0]`, `map(.name)`, `sort_by(.n)`, `sort_by(.name) | reverse`, `length`, `.[] | select(.flag == true) | .name`, `map(.n) | unique`, `group_by(.flag)`,
		`group_by(.flag) | map(map(.name))`, `pivot`, `map(keys) | flatten | unique`, `map(.n + 1)`, `map(to_entries | map(.value))`, `map([.name, .n]) | @csv`,
		`map([.name, .n]) | @tsv`, `to_json(0)`, `.[] |= sort_keys(.)`, `map(.n) | .[] as $x ireduce (0; . + $x)`, `map(tag)`, `map(.n | tag)`, `unique_by(.flag)`,
		`map(.name | @base64)`, `map(with_entries(.key |= upcase))`, `.[1].n`, `del(.[0])`, `map(select(.n > 10))`, `map(.name) | join("|")`, `reverse | map(.name)`,
	},
	"X": {
		`.`, `.root`, `.root.item`, `.root | keys`, `.root.item | map(."+@id")`, `.root.item | map(."+content")`, `.root.item | sort_by(."+@kind") | reverse | map(."+@id")`,
		`.root.meta`, `.root.n + 1`, `.root."+@version"`, `.root.item | length`, `.root.item | group_by(."+@kind") | length`, `.root.item[] | select(."+@id" == "2")`,
		`[.. | select(kind == "scalar")]`, `.root.meta.k |= upcase`, `del(.root.item)`, `.root.item[0] * .root.item[1]`, `.root | to_entries | map(.key)`,
		`to_xml`, `.root.meta | to_xml`, `.root | to_json(0)`, `.root.item | @json`, `sort_keys(..)`, `.root.item |= reverse`, `.root.new = "added"`,
		`load_xml("f.xml") * .`, `.root.extra = load_xml("f.xml")`, `.. | select(has("+@id")) | ."+@id"`, `[.root.item[] | head_comment]`, `.root | head_comment`,
		`"\(.root.n)/\(.root.meta.k)"`, `.root.item | pivot`, `.root.item | map(to_entries | length)`, `[.. | path | join("/")]`,
	},
	"T": {
		`.`, `keys`, `.owner`, `.owner.tags`, `.items`, `.items | map(.id)`, `.db.pool.max`, `.count * .ratio`, `sort_keys(..)`, `to_entries | map(.key)`,
		`.items | length`, `.owner.tags | join(",")`, `.title | upcase`, `del(.items)`, `.owner *= {"age": 3}`, `[.. | select(tag == "!!int")]`, `to_json(0)`, `to_props`,
		`.items | sort_by(.id) | reverse`, `.items | pivot`, `"\(.title)-\(.count)"`, `.owner.tags + ["c"]`, `with_entries(select(.value | kind == "map"))`, `.ratio | tag`,
	},
	"L": {
		`.`, `keys | sort`, `.name`, `.list`, `.list | map(. * 2)`, `.nested | keys | sort`, `sort_keys(..)`, `.n + 1`, `to_json(0)`, `to_entries | sort_by(.key) | map(.key)`,
		`.list | reverse`, `.nested.b | upcase`, `sort_keys(.) | to_props`, `[.. | select(kind == "scalar")] | length`, `del(.nested) | sort_keys(.)`,
	},
	"S": {
		`.`, `length`, `upcase`, `split(" ")`, `split("&")`, `. + "!"`, `@base64`, `@uri`, `@sh`, `tag`, `test("hello")`, `sub("[aeiou]", "_")`, `to_json`, `[., .]`,
		`{"v": .}`, `envsubst`, `"${C18_A}:" + . | envsubst`, `"\(.)\(.)"`,
	},
	"NULL": {
		`1 + 1`, `"a" + "b"`, `{"a": [1, 2, {"b": null}]}`, `[3, 1, 2] | sort`, `[3, 1, 2] | sort | reverse`, `{"z": 1, "a": 2, "m": 3} | sort_keys(.)`,
		`{"z": 1, "a": 2} | to_entries`, `{"z": 1, "a": 2} | keys`, `[1, 1, 2, 3, 3] | unique`, `[{"a": 1}, {"a": 2}, {"a": 1}] | group_by(.a)`,
		`[{"a": 1, "b": 2}, {"a": 3, "b": 4}] | pivot`, `"${C18_A}" | envsubst`, `"${C18_EMPTY}" | envsubst(ne)`, `"${C18_UNSET}" | envsubst(nu)`,
		`"x${C18_N}" | envsubst(ne, nu, ff)`, `load("f.yaml")`, `load_str("f.txt") | split("\n")`, `load_props("f.properties")`, `load_xml("f.xml")`,
		`load_base64("f.b64")`, `"2021-06-01T10:20:30Z" | format_datetime("Mon Jan 2")`, `"2021-06-01T10:20:30Z" | to_unix`, `0 | from_unix`,
		`"a: 1" | from_yaml`, `"{\"a\": [1]}" | from_json`, `"a=b" | from_props`, `"<a>1</a>" | from_xml`, `"a,b\n1,2" | from_csv`, `"aGk=" | @base64d`,
		`{"a": {"b": [1, 2]}} | to_props`, `{"a": {"b": [1, 2]}} | to_xml`, `{"a": {"b": [1, 2]}} | to_json(0)`, `[[1, "a"], [2, "b"]] | @csv`, `[1, "a b", "c'd"] | @sh`,
		`"a b&c" | @uri`, `"x" | @base64`, `.a.b = 1`, `.a = "x" | .b = [.a, .a]`, `[1, 2, 3] | map(. * 2)`, `[1, [2, [3, [4]]]] | flatten`, `{"a": 1} * {"b": {"c": 2}}`,
		`"\(1 + 2) and \("x" | upcase)"`, `[1, 2, 3] | .[] as $i ireduce (0; . + $i)`, `eval("1 + 2")`, `"abc" | test("b")`, `"abc" | sub("b", "B")`, `"a,b" | split(",")`,
		`with(.a; . = 1)`, `with(envsubst)`, `error("null boom")`, `1 +`, `(`, `[1, 2] | .[5]`, `null // "alt"`, `true and false`, `[true, false] | any`, `"x" | kind`, `1.5 | tag`,
		`{"k": "${C18_B}"} | .k |= envsubst`, `("x" | . += "y")`, `(1 | . |= . + 1)`, `[1, 2] | .[0] = 9`,
	},
	// eval-all over two files
	"EA_M": {
		`.`, `[.name]`, `select(fi == 0) * select(fi == 1)`, `select(fi == 1) * select(fi == 0)`, `[.zeta] | sort`, `(select(fi == 0) | .gamma) *+ (select(fi == 1) | .gamma)`,
		`[.beta[]] | unique`, `[.beta[]] | sort | reverse`, `. as $d ireduce ({}; . * $d) | .gamma`, `[.[] | tag] | length`, `select(fi == 0) | .name`,
		`[file_index]`, `[filename]`, `{"names": [.name]}`, `[.. | select(tag == "!!int")] | unique | sort`, `(select(fi == 0) | .beta) + (select(fi == 1) | .beta)`,
		`[.delta | envsubst]`, `[.eta] | unique_by(.p)`, `[keys] | flatten | unique | length`,
	},
	"EA_A": {
		`.`, `. as $d ireduce ([]; . + $d) | map(.name)`, `[.[]] | group_by(.grp) | map(length)`, `[.[]] | sort_by(.n) | map(.name)`, `[.[] | .n] | unique`,
		`[.[]] | unique_by(.grp) | map(.grp)`, `[.[] | select(has("tags")) | .tags[]] | unique`, `[length]`, `[.[0].name]`, `[.[]] | pivot | .name | length`,
	},
	"EA_MULTI": {
		`.`, `[.a]`, `[di]`, `[.b.c] | sort | reverse`, `. as $d ireduce ({}; . * $d)`, `[select(di > 0) | .a]`, `[document_index, file_index]`, `[.a] | .[] as $x ireduce (0; . + $x)`,
	},
	"EA_J": {
		`.`, `select(fi == 0) * select(fi == 1)`, `[keys] | flatten | unique`, `[.k3]`, `[.k9] | sort`, `[.k1 | keys] | flatten | sort`, `. as $d ireduce ({}; . *+ $d) | .k7`,
		`[.k8 | envsubst]`, `[to_entries[] | select(.value | kind == "scalar") | .key] | unique | sort`,
	},
}

// output formats (-o) and the rotation used to spread them over (expression, document) pairs
var c18Outs = []string{"yaml", "json", "props", "csv", "tsv", "xml", "toml", "shell", "lua", "base64", "uri"}

type c18Entry struct {
	ID    int      `json:"id"`
	Expr  string   `json:"expr"`
	Files []string `json:"files"` // empty = null input (-n)
	In    string   `json:"in"`
	Out   string   `json:"out"`
	All   bool     `json:"eval_all,omitempty"`
	// static classification
	Load      string `json:"-"` // load operator kinds used, e.g. "yaml,xml" ("" = none)
	EnvOpt    bool   `json:"-"` // contains envsubst(<options>): parsing it writes envsubstOpType.Type on the pinned tree
	EnvAny    bool   `json:"-"` // contains any envsubst
	PrintSafe bool   `json:"-"` // may share one Printer with other steps (single file, single document, all results in document 0)
	ParseFail bool   `json:"-"` // filled lazily by the reference run
}

var (
	c18EnvOptRe   = regexp.MustCompile(`envsubst\((ne|nu|ff| |,)+\)`)
	c18LoadRe     = regexp.MustCompile(`(load_?xml|xml_?load|load_?base64|load_?props|load_?str|str_?load|load)\(`)
	c18UnsafePrRe = regexp.MustCompile(`split_?doc|splitDoc|load|document_?index|\bdi\b|file_?index|\bfi\b|eval|filename`)
)

func c18LoadKinds(expr string) string {
	seen := map[string]bool{}
	for _, m := range c18LoadRe.FindAllStringSubmatch(expr, -1) {
		k := "yaml"
		switch {
		case strings.Contains(m[1], "xml"):
			k = "xml"
		case strings.Contains(m[1], "base64"):
			k = "base64"
		case strings.Contains(m[1], "props"):
			k = "props"
		case strings.Contains(m[1], "str"):
			k = "str" // load_str has no decoder
		}
		seen[k] = true
	}
	var ks []string
	for k := range seen {
		ks = append(ks, k)
	}
	sort.Strings(ks)
	return strings.Join(ks, ",")
}

var c18Pool []c18Entry

// c18PoolBy* index the pool for the case generators.
var (
	c18Strict   []int // entries that touch neither envsubst(<options>) nor a load operator with a shared decoder
	c18EnvOptIx []int
	c18LoadIx   []int
	c18MapHeavy []int // entries whose implementation iterates Go maps / sorts (for the repeat family)
	// one entry per (order-sensitive expression, large document): the repeat family walks this list first, so that
	// every grouping / sorting / key-listing / merging operator and every codec meets a document of >= 8 keys in each run
	c18RepeatCore []int
)

var c18CoreRe = regexp.MustCompile(`group_by|unique|sort|to_entries|with_entries|from_entries|pivot|keys|\*|ireduce|flatten|to_props|to_xml|to_json|@json|from_props|from_xml|from_json|from_csv|@csv|@tsv|pick|omit|has|contains|array_to_map|path|explode|^\.$`)
var c18BigDocs = map[string]bool{"d_map.yaml": true, "d_arr.yaml": true, "d.json": true, "d.properties": true, "d.csv": true, "d.xml": true, "d.toml": true, "d.lua": true, "d_multi.yaml": true}

var c18MapHeavyRe = regexp.MustCompile(`group_by|unique|sort|to_entries|with_entries|pivot|keys|\*|from_entries|to_props|to_xml|to_json|from_props|from_xml|ireduce|flatten`)

var c18PoolBuilt = c18BuildPool()

func c18BuildPool() bool {
	docsByGroup := map[string][]c18Doc{}
	for _, d := range c18Docs {
		docsByGroup[d.Group] = append(docsByGroup[d.Group], d)
	}
	add := func(e c18Entry) {
		e.ID = len(c18Pool)
		e.Load = c18LoadKinds(e.Expr)
		e.EnvOpt = c18EnvOptRe.MatchString(e.Expr)
		e.EnvAny = strings.Contains(e.Expr, "envsubst")
		c18Pool = append(c18Pool, e)
	}
	groups := []string{"M", "A", "MULTI", "J", "P", "C", "X", "T", "L", "S"}
	rot := 0
	for _, g := range groups {
		for _, ex := range c18Exprs[g] {
			for _, d := range docsByGroup[g] {
				// every (expr, doc) pair gets yaml or json plus one rotating other format
				outs := []string{c18Outs[rot%2], c18Outs[2+rot%(len(c18Outs)-2)]}
				if rot%5 == 0 {
					outs = append(outs, c18Outs[(rot+1)%2])
				}
				rot++
				for _, o := range outs {
					safe := !d.Multi && !c18UnsafePrRe.MatchString(ex)
					add(c18Entry{Expr: ex, Files: []string{d.Name}, In: d.Fmt, Out: o, PrintSafe: safe})
				}
			}
		}
	}
	for i, ex := range c18Exprs["NULL"] {
		add(c18Entry{Expr: ex, In: "yaml", Out: c18Outs[i%2]})
		if i%3 == 0 {
			add(c18Entry{Expr: ex, In: "yaml", Out: c18Outs[2+i%(len(c18Outs)-2)]})
		}
	}
	// two-file stream evaluations (file index, separators between files) and eval-all
	two := map[string][2]string{"M": {"d_map.yaml", "d_map2.yaml"}, "A": {"d_arr.yaml", "d_arr2.yaml"}, "MULTI": {"d_multi.yaml", "d_map2.yaml"}, "J": {"d.json", "d2.json"}}
	for _, g := range []string{"M", "A", "MULTI", "J"} {
		f := two[g]
		in := "yaml"
		if g == "J" {
			in = "json"
		}
		for i, ex := range c18Exprs["EA_"+g] {
			add(c18Entry{Expr: ex, Files: []string{f[0], f[1]}, In: in, Out: c18Outs[i%2], All: true})
			add(c18Entry{Expr: ex, Files: []string{f[1], f[0]}, In: in, Out: c18Outs[(i+1)%2], All: true})
		}
		for i, ex := range c18Exprs[g] {
			if i%7 == 0 {
				add(c18Entry{Expr: ex, Files: []string{f[0], f[1]}, In: in, Out: c18Outs[i%2]})
			}
		}
	}
	// a comment-only / an empty input BEFORE another input through the same (eval-all) decoder: what the
	// decoder keeps from an input without a document must not reach the next one
	for i, ex := range c18Exprs["EA_MULTI"] {
		add(c18Entry{Expr: ex, Files: []string{"d_cmt.yaml", "d_map2.yaml"}, In: "yaml", Out: c18Outs[i%2], All: true})
		add(c18Entry{Expr: ex, Files: []string{"d_cmt.yaml"}, In: "yaml", Out: c18Outs[(i+1)%2], All: true})
		add(c18Entry{Expr: ex, Files: []string{"d_empty.yaml", "d_map.yaml"}, In: "yaml", Out: c18Outs[i%2], All: true})
		add(c18Entry{Expr: ex, Files: []string{"d_map2.yaml"}, In: "yaml", Out: c18Outs[i%2], All: true})
	}
	// one row-wise encoder for records under different column names (in one run, and from entry to entry of a history)
	for _, o := range []string{"csv", "tsv"} {
		add(c18Entry{Expr: ".", Files: []string{"d.csv", "d2.csv"}, In: "csv", Out: o})
		add(c18Entry{Expr: ".", Files: []string{"d2.csv", "d.csv"}, In: "csv", Out: o})
		add(c18Entry{Expr: ".", Files: []string{"d2.csv"}, In: "csv", Out: o})
		add(c18Entry{Expr: ".", Files: []string{"d.csv"}, In: "csv", Out: o})
		add(c18Entry{Expr: `map(pick(["grp", "name"]))`, Files: []string{"d_arr.yaml"}, In: "yaml", Out: o})
		add(c18Entry{Expr: `map(pick(["n"]))`, Files: []string{"d_arr2.yaml", "d_arr.yaml"}, In: "yaml", Out: o})
	}
	for _, o := range []string{"json", "yaml"} {
		for _, ex := range []string{".", ".fruits", "keys", ".owner"} {
			add(c18Entry{Expr: ex, Files: []string{"d_aot.toml"}, In: "toml", Out: o})
			add(c18Entry{Expr: ex, Files: []string{"d_sub.toml"}, In: "toml", Out: o})
		}
	}
	for _, ex := range []string{".", "keys", "to_json(0)", "to_entries | map(.key) | join(\",\")", ".name"} {
		add(c18Entry{Expr: ex, Files: []string{"d_globals.lua"}, In: "lua", Out: "json"})
		add(c18Entry{Expr: ex, Files: []string{"d_globals.lua"}, In: "lua", Out: "yaml"})
	}
	coreSeen := map[string]bool{}
	for _, e := range c18Pool {
		if len(e.Files) == 1 && c18BigDocs[e.Files[0]] && c18CoreRe.MatchString(e.Expr) && !coreSeen[e.Expr+"\x00"+e.Files[0]] {
			coreSeen[e.Expr+"\x00"+e.Files[0]] = true
			c18RepeatCore = append(c18RepeatCore, e.ID)
		}
	}
	for _, e := range c18Pool {
		switch {
		case e.EnvOpt:
			c18EnvOptIx = append(c18EnvOptIx, e.ID)
		case e.Load != "" && e.Load != "str":
			c18LoadIx = append(c18LoadIx, e.ID)
		default:
			c18Strict = append(c18Strict, e.ID)
		}
		if c18MapHeavyRe.MatchString(e.Expr) || e.In != "yaml" || (e.Out != "yaml" && e.Out != "json") {
			c18MapHeavy = append(c18MapHeavy, e.ID)
		}
	}
	return true
}

// c18WriteFiles writes every pool document and load target into dir (idempotent).
func c18WriteFiles(dir string) error {
	for _, d := range c18Docs {
		if err := os.WriteFile(filepath.Join(dir, d.Name), []byte(d.Text), 0o644); err != nil {
			return err
		}
	}
	for n, t := range c18LoadFiles {
		if err := os.WriteFile(filepath.Join(dir, n), []byte(t), 0o644); err != nil {
			return err
		}
	}
	return nil
}
