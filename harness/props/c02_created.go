package props

import (
	"fmt"
	"math/rand/v2"
	"strings"

	"verifharness/gen"
	"verifharness/mon"
	"verifharness/ref"
)

// Law `created`: a map or sequence that an assignment created on the fly (missing key, JSON null / `~`, a null
// document, a null pad of a sequence) is an ordinary container for the REST OF THE SAME EXPRESSION.
//
//	one expression:   create | step2          (create = `P = v`, `P |= v`, `P += v`, `with(P; . = v)`, once or twice)
//	step2 on T, a container that create had to make: `T += e`, `T |= . + e`, `T = T + e`, `with(T; . += e)`,
//	`T *= e`, `T -= e`, `T |= f` (length, keys, [.], {"w": .}, . // d, ...), or a read `T + e`, `T | f`.
//
// Expected (lens model, never yq): D1 = SetPath(D, P, v); m = Get(D1, T); result = SetPath(D1, T, first(f(m))) —
// i.e. `p op= e` gives the match m the value `m op e` where m is what the earlier assignment left there.
// Second, model-free oracle: the one-expression run equals the two-invocation run (create, print, re-read, step2).
func c02CreatedThenOp(r *rand.Rand) mon.Result {
	res := mon.Result{Tags: []string{"law:created"}, Nontrivial: true}
	sv := func() *ref.V { // float-free scalars
		switch r.IntN(6) {
		case 0:
			return ref.NullV()
		case 1:
			return ref.BoolV(r.IntN(2) == 0)
		case 2, 3:
			return ref.IntV(int64(r.IntN(200) - 50))
		default:
			return ref.StrV([]string{"new", "v1", "", "a b", "x", "true", "12", "null"}[r.IntN(8)])
		}
	}
	val := func() *ref.V {
		switch r.IntN(6) {
		case 0:
			return ref.SeqV(sv(), sv())
		case 1:
			return ref.MapV(ref.KV{K: "k", V: sv()})
		default:
			return sv()
		}
	}

	// the document
	pr := gen.Default()
	pr.NoBigInt, pr.SmallInts, pr.NoFloat = true, true, true
	pr.MaxDepth, pr.MaxWidth = 1+r.IntN(2), 2+r.IntN(2)
	pr.Keys = []string{"a", "b", "c", "d"}
	keep := gen.Value(r, pr)
	hasFloat := false
	keep.Walk(nil, func(_ []any, n *ref.V) {
		if n.K == ref.Float {
			hasFloat = true
		}
	})
	if hasFloat {
		keep = ref.IntV(int64(r.IntN(9)))
	}
	sLen := 1 + r.IntN(3)
	sq := &ref.V{K: ref.Seq, A: []*ref.V{}}
	for i := 0; i < sLen; i++ {
		sq.A = append(sq.A, ref.IntV(int64(10+i)))
	}
	doc := ref.MapV(ref.KV{K: "keep", V: keep}, ref.KV{K: "h", V: ref.MapV(ref.KV{K: "in", V: ref.IntV(int64(r.IntN(9)))})}, ref.KV{K: "s", V: sq})

	// where the creation starts
	newKey := []string{"n1", "q", "cfg", "zz"}[r.IntN(4)]
	var base []any
	baseKind := []string{"missing", "missing", "null", "null", "tilde", "nested_missing", "nested_null", "pad", "null_doc", "in_null_elem"}[r.IntN(10)]
	tilde := false
	switch baseKind {
	case "missing":
		base = []any{newKey}
	case "null":
		base = []any{newKey}
		pos := r.IntN(len(doc.M) + 1)
		doc.M = append(doc.M[:pos:pos], append([]ref.KV{{K: newKey, V: ref.NullV()}}, doc.M[pos:]...)...)
	case "tilde":
		base = []any{newKey}
		doc.M = append(doc.M, ref.KV{K: newKey, V: ref.NullV()})
		tilde = true
	case "nested_missing":
		base = []any{"h", newKey}
	case "nested_null":
		base = []any{"h", newKey}
		h, _ := doc.Get("h")
		h.M = append(h.M, ref.KV{K: newKey, V: ref.NullV()})
	case "pad": // an element past the end of an existing sequence
		base = []any{"s", sLen + r.IntN(2)}
	case "in_null_elem": // a null element of an existing sequence
		sq.A = append(sq.A, ref.NullV())
		base = []any{"s", sLen}
	case "null_doc":
		doc = ref.NullV()
		base = []any{}
	}

	// the path the first assignment writes: base + 1..3 steps that do not exist yet
	step := func() any {
		if r.IntN(3) == 0 {
			return r.IntN(3)
		}
		return []string{"k", "j", "name", "x"}[r.IntN(4)]
	}
	nsuf := 1 + r.IntN(3)
	P := append([]any{}, base...)
	for i := 0; i < nsuf; i++ {
		P = append(P, step())
	}
	// T: one of the containers the assignment has to create (base itself, or a deeper intermediate)
	tl := len(base) + r.IntN(nsuf)
	if r.IntN(2) == 0 {
		tl = len(P) - 1 // the innermost one: it holds the value just written
	}
	T := append([]any{}, P[:tl]...)
	tIsMap := false
	if _, ok := P[tl].(string); ok {
		tIsMap = true
	}
	pathStr := func(p []any) string {
		if len(p) == 0 {
			return "."
		}
		var sb strings.Builder
		for i, k := range p {
			switch kk := k.(type) {
			case string:
				sb.WriteString("." + kk)
			case int:
				if i == 0 {
					sb.WriteString(".")
				}
				fmt.Fprintf(&sb, "[%d]", kk)
			}
		}
		return sb.String()
	}
	ps, ts := pathStr(P), pathStr(T)

	// step 1
	v := val()
	cform := []string{"=", "=", "|=", "+=", "with", "two"}[r.IntN(6)]
	d1 := doc.Copy()
	if err := ref.SetPath(d1, P, v); err != nil {
		res.Verdict, res.Detail, res.Nontrivial = mon.Held, "model: path not creatable", false
		return res
	}
	var create string
	switch cform {
	case "=":
		create = ps + " = " + ref.Lit(v).String()
	case "|=":
		create = ps + " |= " + ref.Lit(v).String()
	case "+=":
		create = ps + " += " + ref.Lit(v).String() // the missing leaf is null: null + v = v
	case "with":
		create = "with(" + ps + "; . = " + ref.Lit(v).String() + ")"
	default:
		// a second write below T: T then holds two things written by two assignments
		P2 := append([]any{}, T...)
		if tIsMap {
			P2 = append(P2, []string{"second", "k2"}[r.IntN(2)])
		} else {
			P2 = append(P2, P[tl].(int)+1+r.IntN(2))
		}
		v2 := sv()
		if err := ref.SetPath(d1, P2, v2); err != nil {
			res.Verdict, res.Detail, res.Nontrivial = mon.Held, "model: path not creatable", false
			return res
		}
		create = ps + " = " + ref.Lit(v).String() + " | " + pathStr(P2) + " = " + ref.Lit(v2).String()
	}
	m, ok := d1.GetPath(T)
	if !ok || (tIsMap && m.K != ref.Map) || (!tIsMap && m.K != ref.Seq) {
		res.Verdict, res.Detail, res.Nontrivial = mon.Held, "model: no created container", false
		return res
	}

	// step 2: an operation on T
	var e *ref.V // operand
	if tIsMap {
		e = &ref.V{K: ref.Map, M: []ref.KV{}}
		n := 1 + r.IntN(2)
		for i := 0; i < n; i++ {
			k := []string{"c", "w", "k", "name", "second"}[r.IntN(5)] // new keys, and keys the first step may have written
			if _, dup := e.Get(k); dup {
				continue
			}
			e.M = append(e.M, ref.KV{K: k, V: val()})
		}
	} else {
		switch r.IntN(4) {
		case 0:
			e = sv() // seq + scalar appends the scalar
			if e.K == ref.Null {
				e = ref.IntV(7)
			}
		default:
			e = &ref.V{K: ref.Seq, A: []*ref.V{}}
			for i := 0; i <= r.IntN(3); i++ {
				e.A = append(e.A, sv())
			}
		}
	}
	eStr := ref.Lit(e).String()
	eFromDoc := false
	if doc.K == ref.Map && r.IntN(4) == 0 {
		// e read from the (root of the) document instead of a literal
		if tIsMap {
			e, _ = doc.Get("h")
			e, eStr, eFromDoc = e.Copy(), ".h", !ref.IsPrefix([]any{"h"}, T)
		} else {
			e, _ = doc.Get("s")
			e, eStr, eFromDoc = e.Copy(), ".s", !ref.IsPrefix([]any{"s"}, T)
		}
		if !eFromDoc { // T lies below what e reads: keep the literal
			if tIsMap {
				e, eStr = ref.MapV(ref.KV{K: "c", V: ref.IntV(2)}), `{"c": 2}`
			} else {
				e, eStr = ref.SeqV(ref.StrV("y")), `["y"]`
			}
		}
	}
	type op2 struct {
		name string
		expr string    // the yq text of step 2 (a write to T, or a read)
		f    *ref.Expr // applied to m
		read bool      // step 2 only reads: the results are f(m), not the document
	}
	plus := ref.Bin("+", ref.Self(), ref.Lit(e))
	var ops []op2
	ops = append(ops,
		op2{"+=", ts + " += " + eStr, plus, false},
		op2{"+=", ts + " += " + eStr, plus, false},
		op2{"|=.+", ts + " |= . + " + eStr, plus, false},
		op2{"=T+", ts + " = " + ts + " + " + eStr, plus, false},
		op2{"with+=", "with(" + ts + "; . += " + eStr + ")", plus, false},
		op2{"read+", ts + " + " + eStr, plus, true},
		op2{"|=length", ts + " |= length", ref.Fn0("length"), false},
		op2{"|=[.]", ts + " |= [.]", &ref.Expr{Op: ref.OpCollect, L: ref.Self()}, false},
		op2{"|={w:.}", ts + ` |= {"w": .}`, &ref.Expr{Op: ref.OpObject, Args: []*ref.Expr{ref.Lit(ref.StrV("w")), ref.Self()}}, false},
		op2{"|=//", ts + ` |= (. // "dflt")`, ref.Bin("//", ref.Self(), ref.Lit(ref.StrV("dflt"))), false},
		op2{"read_length", ts + " | length", ref.Fn0("length"), true},
	)
	if eFromDoc {
		// inside |= and with() a path is relative to the match: only the forms that read e from the root
		ops = []op2{ops[0], ops[1], ops[3], ops[5]}
	}
	if tIsMap && !eFromDoc {
		mul := ref.Bin("*", ref.Self(), ref.Lit(e))
		ops = append(ops, op2{"*=", ts + " *= " + eStr, mul, false}, op2{"|=keys", ts + " |= keys", ref.Fn0("keys"), false})
	}
	if !tIsMap && e.K == ref.Seq && !eFromDoc {
		// subtract: some elements that are there, some that are not
		sub := &ref.V{K: ref.Seq, A: []*ref.V{}}
		for _, x := range m.A {
			if x.IsScalar() && r.IntN(2) == 0 {
				sub.A = append(sub.A, x.Copy())
			}
		}
		sub.A = append(sub.A, ref.StrV("zz_absent"))
		ops = append(ops, op2{"-=", ts + " -= " + ref.Lit(sub).String(), ref.Bin("-", ref.Self(), ref.Lit(sub)), false})
	}
	o := ops[r.IntN(len(ops))]
	rs, ferr := ref.Eval(o.f, []*ref.V{m.Copy()}, ref.Env{T: &ref.Trace{}})
	if ferr != nil || len(rs) != 1 {
		res.Verdict, res.Detail, res.Nontrivial = mon.Held, "outside the modelled domain", false
		res.Tags = append(res.Tags, "excluded_domain")
		return res
	}
	var want []*ref.V
	if o.read {
		want = []*ref.V{rs[0]}
	} else {
		d2 := d1.Copy()
		if err := ref.SetPath(d2, T, rs[0]); err != nil {
			res.Verdict, res.Detail, res.Nontrivial = mon.Held, "model: incompatible while writing", false
			return res
		}
		want = []*ref.V{d2}
	}

	// the text handed to yq
	inFmt := []string{"yaml", "yaml", "json", "yaml-block"}[r.IntN(4)]
	text := doc.JSON() + "\n"
	if tilde {
		inFmt = "yaml"
		text = strings.Replace(text, ref.QuoteJSON(newKey)+":null", ref.QuoteJSON(newKey)+": ~", 1)
		if !strings.Contains(text, ": ~") {
			res.Verdict, res.Detail, res.Nontrivial = mon.Inconclusive, "generator: could not spell the null as ~", false
			return res
		}
	} else if inFmt == "yaml-block" {
		if doc.K == ref.Null {
			inFmt = "yaml"
		} else {
			text, inFmt = blockYAML(doc), "yaml"
		}
	}
	expr := create + " | " + o.expr
	kind := "seq"
	if tIsMap {
		kind = "map"
	}
	res.Tags = append(res.Tags, "created:"+kind, "created_base:"+baseKind, "created_by:"+cform, "created_then:"+o.name, fmt.Sprintf("created_depth:%d", tl-len(base)))
	if eFromDoc {
		res.Tags = append(res.Tags, "created_e_from_doc")
	}
	res.Case = map[string]any{"law": "created", "doc": strings.TrimSuffix(text, "\n"), "in": inFmt, "expr": expr}
	res.Sig = fmt.Sprintf("created|%s|%s|%s|%s|%d/%d|%x", baseKind, cform, o.name, kind, tl-len(base), nsuf, keep.ShapeHash())

	same := func(a, b []*ref.V) bool {
		if len(a) != len(b) {
			return false
		}
		for i := range a {
			if !ref.EqualNum(a[i], b[i]) {
				return false
			}
		}
		return true
	}
	_, got, yerr := evalTextFmt(expr, text, inFmt)
	res.Evals++
	if yerr != nil {
		res.Verdict = mon.Violated
		res.Detail = fmt.Sprintf("`%s` failed: %v\n doc      %s\n expected %v", expr, yerr, text, want)
		return res
	}
	if !same(got, want) {
		res.Verdict = mon.Violated
		res.Detail = fmt.Sprintf("`%s`: the container created by the first step is not an ordinary %s for the second\n doc      %s expected %v\n observed %v\n (m after the first step: %s)", expr, kind, text, want, got, m)
		return res
	}
	// model-free: the same two steps in two invocations (print, re-read) give the same
	if r.IntN(2) == 0 {
		_, mid, e1 := evalTextFmt(create, text, inFmt)
		res.Evals++
		if e1 != nil || len(mid) != 1 {
			res.Verdict = mon.Violated
			res.Detail = fmt.Sprintf("`%s` alone fails (%v) or yields %d documents although `%s` works\n doc %s", create, e1, len(mid), expr, text)
			return res
		}
		_, two, e2 := evalTextFmt(o.expr, mid[0].JSON()+"\n", "yaml")
		res.Evals++
		if e2 != nil || !same(two, got) {
			res.Verdict = mon.Violated
			res.Detail = fmt.Sprintf("`%s` in one expression gives %v, in two invocations %v (err %v)\n doc %s", expr, got, two, e2, text)
			return res
		}
		res.Tags = append(res.Tags, "created_two_invocations")
	}
	res.Verdict, res.Detail = mon.Held, "the created container behaves as an ordinary one"
	return res
}
