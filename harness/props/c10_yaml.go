package props

import (
	"errors"
	"fmt"
	"io"
	"math/rand/v2"
	"strings"

	yaml "gopkg.in/yaml.v3"
)

// ---- independent reader: yaml.v3 Node API used directly by the harness ------------------------

// c10PDoc is one parsed document: canonical data (tags + values, order kept) and every comment
// line found anywhere in the document (document node included), in node order.
type c10PDoc struct {
	Data     string
	Comments []string
}

func (d c10PDoc) String() string {
	return fmt.Sprintf("%s %q", d.Data, d.Comments)
}

func c10ParseStream(text string) ([]c10PDoc, error) {
	dec := yaml.NewDecoder(strings.NewReader(text))
	var docs []c10PDoc
	for {
		var n yaml.Node
		err := dec.Decode(&n)
		if errors.Is(err, io.EOF) {
			return docs, nil
		}
		if err != nil {
			return docs, err
		}
		var sb strings.Builder
		var cm []string
		c10Canon(&n, &sb, &cm, 0)
		docs = append(docs, c10PDoc{Data: sb.String(), Comments: cm})
	}
}

func c10AddComment(cm *[]string, c string) {
	for _, ln := range strings.Split(c, "\n") {
		ln = strings.TrimSpace(ln)
		if ln != "" {
			*cm = append(*cm, ln)
		}
	}
}

func c10Canon(n *yaml.Node, sb *strings.Builder, cm *[]string, depth int) {
	if depth > 200 {
		sb.WriteString("<deep>")
		return
	}
	c10AddComment(cm, n.HeadComment)
	c10AddComment(cm, n.LineComment)
	switch n.Kind {
	case yaml.DocumentNode:
		for _, c := range n.Content {
			c10Canon(c, sb, cm, depth+1)
		}
	case yaml.ScalarNode:
		tag := n.ShortTag()
		v := n.Value
		if tag == "!!null" {
			v = ""
		}
		fmt.Fprintf(sb, "%s(%q)", tag, v)
	case yaml.SequenceNode:
		sb.WriteString("[")
		for i, c := range n.Content {
			if i > 0 {
				sb.WriteString(",")
			}
			c10Canon(c, sb, cm, depth+1)
		}
		sb.WriteString("]")
	case yaml.MappingNode:
		sb.WriteString("{")
		for i := 0; i+1 < len(n.Content); i += 2 {
			if i > 0 {
				sb.WriteString(",")
			}
			c10Canon(n.Content[i], sb, cm, depth+1)
			sb.WriteString(":")
			c10Canon(n.Content[i+1], sb, cm, depth+1)
		}
		sb.WriteString("}")
	case yaml.AliasNode:
		sb.WriteString("*" + n.Value)
	default:
		sb.WriteString("null?")
	}
	c10AddComment(cm, n.FootComment)
}

const c10NullData = `!!null("")`

// ---- comment / separator laden files (O2, O4 identity) ---------------------------------------
//
// Grammar (kept inside what yaml.v3 attaches unambiguously; see Assumptions):
//
//	file     := EMPTY | COMMENTFILE | [prelude] content ( "---\n" chunk )*
//	prelude  := "---\n" | "# p…\n---\n"
//	chunk    := content | EMPTYDOC | "# c…\n"
//	content  := ["# h…\n"] body ["# f…\n"] ["...\n"]      (no blank line between a comment and its body)
//	body     := block map | block seq | flow JSON | scalar
//
// The first document of a file is always a content document: an explicit empty or comment-only
// document at the very start of a file is excluded here (yq folds it into the leading content
// of the next document; O3 covers and classifies that separately).

type c10RichDoc struct {
	Kind       string // content | empty | comment
	Body       string // map | seq | flow | scalar (content only)
	Solo       string // the document in a file of its own
	ScalarRoot bool
	HasComment bool
}

type c10RichFile struct {
	c10File
	Rich    []c10RichDoc
	Prelude []string // comment lines placed before an explicit `---` at the start of the file
	// CommentOnlyFile: the file has only comment lines; yq treats it as one (null) document
	CommentOnlyFile bool
}

func c10Body(r *rand.Rand, id *int) (text, kind string, scalar bool) {
	*id++
	switch r.IntN(6) {
	case 0, 1, 2:
		n := 1 + r.IntN(3)
		var sb strings.Builder
		used := map[string]bool{}
		for i := 0; i < n; i++ {
			k := []string{"a", "b", "k", "x"}[r.IntN(4)]
			if used[k] {
				continue
			}
			used[k] = true
			switch r.IntN(5) {
			case 0:
				fmt.Fprintf(&sb, "%s:\n  n: %d\n", k, r.IntN(9))
			case 1:
				fmt.Fprintf(&sb, "%s:\n  - %d\n  - s%d\n", k, r.IntN(9), *id)
			case 2:
				fmt.Fprintf(&sb, "%s: \"q%d\"\n", k, *id)
			default:
				fmt.Fprintf(&sb, "%s: %d\n", k, r.IntN(9))
			}
		}
		return sb.String(), "map", false
	case 3:
		n := 1 + r.IntN(3)
		var sb strings.Builder
		for i := 0; i < n; i++ {
			fmt.Fprintf(&sb, "- %d\n", r.IntN(9))
		}
		return sb.String(), "seq", false
	case 4:
		t, _ := c10Doc(r, []string{"map", "seq"}[r.IntN(2)])
		if strings.ContainsAny(t, "&*") { // anchors variant
			return t + "\n", "flow", false
		}
		return t + "\n", "flow", !strings.HasPrefix(t, "{") && !strings.HasPrefix(t, "[")
	default:
		return []string{"word", "42", "\"quoted str\"", "true", "'single'", "3.5"}[r.IntN(6)] + "\n", "scalar", true
	}
}

// c10RichFiles builds 1..3 files; opts: allowPrelude lets a later file start with `# p\n---\n`.
func c10RichFiles(r *rand.Rand, allowCommentPrelude bool) []c10RichFile {
	nf := 1 + r.IntN(3)
	id := 0
	var files []c10RichFile
	for i := 0; i < nf; i++ {
		f := c10RichFile{}
		f.Name = c10FileName(r, i)
		switch k := r.IntN(12); {
		case k == 0:
			f.Feat = append(f.Feat, "empty-file")
			files = append(files, f)
			continue
		case k == 1:
			id++
			f.Text = fmt.Sprintf("# only comment %d\n", id)
			f.CommentOnlyFile = true
			f.Docs = []string{f.Text}
			f.Kinds = []string{"comment"}
			f.Rich = []c10RichDoc{{Kind: "comment", Solo: f.Text, ScalarRoot: true, HasComment: true}}
			f.Feat = append(f.Feat, "comment-only-file")
			files = append(files, f)
			continue
		}
		var sb strings.Builder
		prelude := ""
		switch r.IntN(6) {
		case 0, 1:
			prelude = "---\n"
			f.Feat = append(f.Feat, "leading-separator")
		case 2:
			if allowCommentPrelude {
				id++
				c := fmt.Sprintf("# prelude %d", id)
				f.Prelude = []string{c}
				prelude = c + "\n---\n"
				f.Feat = append(f.Feat, "comment-before-leading-separator")
			}
		}
		sb.WriteString(prelude)
		nd := 1 + r.IntN(4)
		for d := 0; d < nd; d++ {
			var rd c10RichDoc
			kind := "content"
			// a comment-only document is never the last of its file: yaml.v3 hands a comment that ends the
			// stream to the PREVIOUS document (dependency behaviour, not yq's; see §9)
			if d > 0 {
				switch r.IntN(7) {
				case 0:
					kind = "empty"
				case 1:
					if d < nd-1 {
						kind = "comment"
					}
				}
			}
			chunk := ""
			switch kind {
			case "empty":
				rd = c10RichDoc{Kind: "empty", Solo: "---\n", ScalarRoot: true}
				f.Feat = append(f.Feat, "empty-doc")
			case "comment":
				id++
				chunk = fmt.Sprintf("# lonely %d\n", id)
				rd = c10RichDoc{Kind: "comment", Solo: "---\n" + chunk, ScalarRoot: true, HasComment: true}
				f.Feat = append(f.Feat, "comment-only-doc")
			default:
				body, bk, scalar := c10Body(r, &id)
				rd = c10RichDoc{Kind: "content", Body: bk, ScalarRoot: scalar}
				if r.IntN(3) == 0 {
					chunk += fmt.Sprintf("# head %d\n", id)
					rd.HasComment = true
					f.Feat = append(f.Feat, "head-comment")
				}
				chunk += body
				if r.IntN(4) == 0 {
					chunk += fmt.Sprintf("# foot %d\n", id)
					rd.HasComment = true
					f.Feat = append(f.Feat, "foot-comment")
				} else if r.IntN(6) == 0 {
					chunk += "...\n"
					f.Feat = append(f.Feat, "doc-end-marker")
				}
				if d == nd-1 && r.IntN(5) == 0 && strings.HasSuffix(chunk, body) {
					chunk = strings.TrimSuffix(chunk, "\n")
					f.Feat = append(f.Feat, "no-final-newline")
				}
				rd.Solo = chunk
				if d == 0 {
					rd.Solo = prelude + chunk
				}
			}
			if d > 0 {
				sb.WriteString("---\n")
			}
			sb.WriteString(chunk)
			f.Rich = append(f.Rich, rd)
			f.Docs = append(f.Docs, rd.Solo)
			k := rd.Kind
			if k == "content" {
				k = "rich-" + rd.Body
			}
			f.Kinds = append(f.Kinds, k)
		}
		f.Text = sb.String()
		files = append(files, f)
	}
	return files
}

func c10Plain(files []c10RichFile) []c10File {
	out := make([]c10File, len(files))
	for i, f := range files {
		out[i] = f.c10File
	}
	return out
}
