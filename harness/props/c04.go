package props

import (
	"errors"
	"fmt"
	"math/rand/v2"
	"os"
	"path/filepath"
	"verifharness/yqx"

	"verifharness/gen"
	"verifharness/mon"
	"verifharness/ref"
)

// C04 — deep merge (*) computes the documented merge and leaves its operands untouched.
//
// Oracle: ref.Merge on the pure value model (a's entries first then b's new ones, recursive on
// map/map, otherwise b wins; + d ? n), the algebraic identities, the N-file left fold through the
// real binary, and operand immutability observed in the same evaluation.
type c04 struct{}

func init() { mon.Register(c04{}) }

func (c04) ID() string    { return "C04" }
func (c04) Level() string { return "exploration" }
func (c04) Rule() string {
	return "case = pair (a, b) of nested maps where b is derived from a by keeping/mutating/kind-switching/dropping keys at 1-4 levels and adding new ones " +
		"(map-vs-scalar, null-vs-map, nested sequences), x one of the 16 subsets of the flags + d ? n. Families: (merge) `.a *F .b` == ref.Merge; " +
		"(laws) a*{}==a, {}*a==a, a*a==a; (immut) `[(.a *F .b), .a, .b]` keeps .a and .b and `(.a *F .b) as $m | .` prints the document unchanged; " +
		"(fold) `yq ea '. as $i ireduce ({}; . * $i)' f1..fN` through the real binary == left fold of ref.Merge over 2-4 files. " +
		"Excluded exactly as the property states: a map-vs-non-map or sequence-vs-scalar conflict at one key combined with + ? or n. " +
		"Non-trivial = a and b share >=1 key and differ; distinct by (family, flags, shapes of a and b)."
}
func (c04) Assumptions() []string {
	return []string{"alias-free JSON-model maps with string keys (no glob characters in keys)", "`+` together with `d` is asserted as observed on the pinned tree (the docs do not define the pair)"}
}
func (c04) Cases(tier string) int {
	if tier == "thorough" {
		return 150000
	}
	return 10000
}
func (c04) RaceCases(tier string) int {
	if tier == "thorough" {
		return 4000
	}
	return 250
}
func (c04) Floor(tier string) int { return 1500 }

// (keys that look like patterns are keys: the entries of b go to the entries of a with the SAME key)
// (and strings that look like numbers written another way: string keys all the same)
var c04Keys = []string{"a", "b", "c", "d", "x", "y", "k", "", "a*", "*", "?", "ab", "abc", "a_b", "k1", "k10", "007", "0x1F", "1_000", "+5", "7"}

func c04Map(r *rand.Rand, depth int) *ref.V {
	p := gen.Default()
	p.OnlyMaps = false
	p.NoBigInt, p.SmallInts, p.PlainStr = true, true, true
	p.MaxDepth = depth
	p.MaxWidth = 4
	p.Keys = c04Keys
	p.ScalarBias = 45
	m := &ref.V{K: ref.Map, M: []ref.KV{}}
	n := 1 + r.IntN(4)
	for i := 0; i < n; i++ {
		k := c04Keys[r.IntN(len(c04Keys))]
		if _, dup := m.Get(k); dup {
			continue
		}
		m.M = append(m.M, ref.KV{K: k, V: gen.Value(r, p)})
	}
	if len(m.M) > 0 && r.IntN(4) == 0 {
		// "unset-looking" values that are values all the same: false, 0, ""
		m.M[r.IntN(len(m.M))].V = []*ref.V{ref.BoolV(false), ref.IntV(0), ref.StrV(""), ref.BoolV(false)}[r.IntN(4)]
	}
	return m
}

// derive builds b from a: same keys partly kept, mutated, kind-switched or dropped, new keys added.
func c04Derive(r *rand.Rand, a *ref.V, depth int) *ref.V {
	if a.K != ref.Map || depth <= 0 {
		switch r.IntN(4) {
		case 0:
			return a.Copy()
		case 1:
			return gen.SimpleValue(r, 1)
		case 2:
			return c04Map(r, 2)
		default:
			if a.K == ref.Seq {
				s := a.Copy()
				if len(s.A) > 0 && r.IntN(2) == 0 {
					s.A[r.IntN(len(s.A))] = gen.SimpleValue(r, 1)
				}
				if r.IntN(2) == 0 {
					s.A = append(s.A, gen.SimpleValue(r, 1))
				} else if len(s.A) > 0 {
					s.A = s.A[:len(s.A)-1]
				}
				return s
			}
			return gen.SimpleValue(r, 0)
		}
	}
	b := &ref.V{K: ref.Map, M: []ref.KV{}}
	var keep []ref.KV
	for _, kv := range a.M {
		switch r.IntN(6) {
		case 0: // dropped
		case 1, 2, 3:
			keep = append(keep, ref.KV{K: kv.K, V: c04Derive(r, kv.V, depth-1)})
		case 4:
			keep = append(keep, ref.KV{K: kv.K, V: kv.V.Copy()})
		default:
			keep = append(keep, ref.KV{K: kv.K, V: gen.SimpleValue(r, 1)})
		}
	}
	// b's key order differs from a's
	r.Shuffle(len(keep), func(i, j int) { keep[i], keep[j] = keep[j], keep[i] })
	b.M = keep
	for i := 0; i < r.IntN(3); i++ {
		k := []string{"n1", "n2", "zz", "n*", "*", "n10", "n1_x", "zz_top"}[r.IntN(8)]
		if _, dup := b.Get(k); !dup {
			pos := r.IntN(len(b.M) + 1)
			b.M = append(b.M[:pos:pos], append([]ref.KV{{K: k, V: gen.SimpleValue(r, 2)}}, b.M[pos:]...)...)
		}
	}
	return b
}

// kindConflict reports a map-vs-non-map or sequence-vs-scalar conflict at a common path.
func kindConflict(a, b *ref.V) bool {
	if a.K == ref.Null || b.K == ref.Null {
		return false
	}
	if (a.K == ref.Map) != (b.K == ref.Map) {
		return true
	}
	if (a.K == ref.Seq) != (b.K == ref.Seq) {
		return true
	}
	if a.K == ref.Map {
		for _, kv := range b.M {
			if x, ok := a.Get(kv.K); ok && kindConflict(x, kv.V) {
				return true
			}
		}
	}
	if a.K == ref.Seq {
		for i := range b.A {
			if i < len(a.A) && kindConflict(a.A[i], b.A[i]) {
				return true
			}
		}
	}
	return false
}

func (p c04) Run(w *mon.Worker, idx int) mon.Result {
	r := w.Rand(idx)
	a := c04Map(r, 2+r.IntN(3))
	b := c04Derive(r, a, 1+r.IntN(4))
	if b.K != ref.Map {
		b = c04Map(r, 2)
	}
	switch r.IntN(12) {
	case 0: // an empty left operand (nothing to copy is still something not to write into)
		a = &ref.V{K: ref.Map, M: []ref.KV{}}
	case 1:
		a = ref.NullV()
	case 2:
		b = &ref.V{K: ref.Map, M: []ref.KV{}}
	}
	if idx%100 == 41 {
		return c04DeepCase(w, r)
	}
	if idx%25 == 12 {
		return c04AliasCase(w, r)
	}
	fl := ref.MergeFlags{Append: r.IntN(3) == 0, Deep: r.IntN(3) == 0, Existing: r.IntN(4) == 0, NewOnly: r.IntN(4) == 0}
	fam := []string{"merge", "merge", "merge", "laws", "immut", "fold"}[idx%6]
	// a quarter of the float-free cases go through the JSON decoder (it builds the node tree, with the places of
	// its nodes, on its own; nulls inside sequences included)
	inFmt := "yaml"
	{
		hasFloat := false
		for _, x := range []*ref.V{a, b} {
			x.Walk(nil, func(_ []any, n *ref.V) {
				if n.K == ref.Float {
					hasFloat = true
				}
			})
		}
		if !hasFloat && idx%4 == 3 {
			inFmt = "json"
		} else if idx%4 == 1 {
			inFmt = "yaml-block" // block-style collections (the other YAML cases are written in flow style)
		}
	}
	evalDoc := func(expr string, d *ref.V) (*ref.V, []*ref.V, error) { return evalDocFmt(expr, d, inFmt) }
	res := mon.Result{Tags: []string{"family:" + fam, "flags:" + fl.String(), "decoder:" + inFmt}}
	doc := ref.MapV(ref.KV{K: "a", V: a}, ref.KV{K: "b", V: b})
	cs := map[string]any{"a": a.JSON(), "b": b.JSON(), "flags": fl.String(), "family": fam}
	res.Case = cs
	res.Sig = fmt.Sprintf("%s|%s|%x|%x", fam, fl.String(), a.ShapeHash(), b.ShapeHash())
	shared := len(a.M) == 0 || len(b.M) == 0
	for _, kv := range b.M {
		if _, ok := a.Get(kv.K); ok {
			shared = true
		}
	}
	res.Nontrivial = shared && !ref.Equal(a, b)
	fail := func(f string, x ...any) mon.Result {
		res.Verdict = mon.Violated
		res.Detail = fmt.Sprintf(f, x...)
		return res
	}
	skip := func(d string) mon.Result {
		res.Verdict, res.Detail, res.Nontrivial = mon.Held, d, false
		res.Tags = append(res.Tags, "excluded_domain")
		return res
	}
	if (fl.Append || fl.Existing || fl.NewOnly) && kindConflict(a, b) && fam != "laws" && fam != "fold" {
		return skip("kind conflict combined with + ? n: left open by the documentation")
	}
	op := "*" + fl.String()

	switch fam {
	case "merge":
		want, err := ref.Merge(a, b, fl)
		if errors.Is(err, ref.ErrDomain) {
			return skip("outside the modelled domain")
		}
		if err == nil && idx%4 == 1 {
			// the right operand serves several merges of one evaluation (and sits one level further down): each merge
			// gives what it gives on its own
			empty := &ref.V{K: ref.Map, M: []ref.KV{}}
			wantE, errE := ref.Merge(empty, b, fl)
			if errE == nil {
				doc2 := ref.MapV(ref.KV{K: "a", V: a}, ref.KV{K: "w", V: ref.MapV(ref.KV{K: "b", V: b})})
				expr := fmt.Sprintf("[.a %s .w.b, {} %s .w.b, .a %s .w.b]", op, op, op)
				if r.IntN(2) == 0 {
					expr = fmt.Sprintf("(.a %s .w.b) as $m | [$m, {} %s .w.b, .a %s .w.b]", op, op, op)
				}
				cs["expr"] = expr
				res.Tags = append(res.Tags, "operand_used_twice")
				got, _, yerr := evalDoc(expr, doc2)
				res.Evals++
				if yerr != nil {
					return fail("`%s` failed: %v\n a = %s\n b = %s", expr, yerr, a, b)
				}
				if wantAll := ref.SeqV(want, wantE, want); got == nil || !ref.EqualNum(got, wantAll) {
					return fail("`%s`\n a = %s\n .w.b = %s\n expected %s\n observed %s", expr, a, b, wantAll, got)
				}
				res.Verdict, res.Detail = mon.Held, "three merges sharing their right operand"
				return res
			}
		}
		expr := ".a " + op + " .b"
		cs["expr"] = expr
		got, _, yerr := evalDoc(expr, doc)
		res.Evals++
		if err != nil {
			if yerr == nil {
				return fail("`%s`: model says undefined (%v) but yq gave %s", expr, err, got)
			}
			res.Verdict = mon.Held
			return res
		}
		if yerr != nil {
			return fail("`%s` failed: %v\n a = %s\n b = %s", expr, yerr, a, b)
		}
		if got == nil || !ref.EqualNum(got, want) {
			return fail("`%s`\n a = %s\n b = %s\n expected %s\n observed %s", expr, a, b, want, got)
		}
		res.Verdict, res.Detail = mon.Held, want.JSON()
		return res

	case "laws":
		if a.K != ref.Map {
			return skip("laws are stated for maps")
		}
		for _, c := range []struct{ expr, name string }{
			{".a * {}", "a * {} == a"},
			{"{} * .a", "{} * a == a"},
			{".a * .a", "a * a == a"},
			{".a *d .a", "a *d a == a"},
			{".a *? .a", "a *? a == a"},
			{".a *n {}", "a *n {} == a"},
		} {
			got, _, yerr := evalDoc(c.expr, doc)
			res.Evals++
			if yerr != nil || got == nil || !ref.EqualNum(got, a) {
				return fail("law %s broken: `%s` gave %v (err %v)\n a = %s", c.name, c.expr, got, yerr, a)
			}
		}
		res.Nontrivial = len(a.M) >= 2
		res.Verdict, res.Detail = mon.Held, "identities hold"
		return res

	case "immut":
		expr := "[(.a " + op + " .b), .a, .b]"
		cs["expr"] = expr
		got, _, yerr := evalDoc(expr, doc)
		res.Evals++
		if yerr != nil {
			// an undefined merge is not this family's business
			return skip("merge failed: " + yerr.Error())
		}
		if got == nil || got.K != ref.Seq || len(got.A) != 3 {
			return fail("`%s` did not yield a 3-element array: %v", expr, got)
		}
		if !ref.EqualNum(got.A[1], a) {
			return fail("`%s`: .a reads differently after the merge\n before %s\n after  %s", expr, a, got.A[1])
		}
		if !ref.EqualNum(got.A[2], b) {
			return fail("`%s`: .b reads differently after the merge\n before %s\n after  %s", expr, b, got.A[2])
		}
		expr2 := "(.a " + op + " .b) as $m | ."
		got2, _, yerr2 := evalDoc(expr2, doc)
		res.Evals++
		if yerr2 != nil || got2 == nil || !ref.EqualNum(got2, doc) {
			return fail("`%s` changed the document (err %v)\n before %s\n after  %v", expr2, yerr2, doc, got2)
		}
		// and a later edit of the merge result must not reach the operands (no aliasing)
		expr3 := "(.a " + op + " .b) as $m | ($m | .. |= 0) as $z | [.a, .b]"
		got3, _, yerr3 := evalDoc(expr3, doc)
		res.Evals++
		if yerr3 == nil && got3 != nil && got3.K == ref.Seq && len(got3.A) == 2 {
			if !ref.EqualNum(got3.A[0], a) || !ref.EqualNum(got3.A[1], b) {
				return fail("`%s`: editing the merge result changed an operand\n a before %s after %s\n b before %s after %s", expr3, a, got3.A[0], b, got3.A[1])
			}
		}
		res.Verdict, res.Detail = mon.Held, "operands untouched"
		return res

	case "fold":
		if w.Race {
			res.Verdict, res.Nontrivial, res.Detail = mon.Held, false, "binary-only family"
			return res
		}
		n := 2 + r.IntN(3)
		docs := []*ref.V{a, b}
		for len(docs) < n {
			docs = append(docs, c04Derive(r, docs[r.IntN(len(docs))], 2))
		}
		for i, d := range docs {
			if d.K != ref.Map {
				docs[i] = c04Map(r, 2)
			}
		}
		acc := &ref.V{K: ref.Map, M: []ref.KV{}}
		for _, d := range docs {
			var err error
			acc, err = ref.Merge(acc, d, ref.MergeFlags{})
			if err != nil {
				return skip("outside the modelled domain")
			}
		}
		dir := filepath.Join(w.Scratch, fmt.Sprintf("c04-%d", idx))
		_ = os.MkdirAll(dir, 0o755)
		defer os.RemoveAll(dir)
		args := []string{"ea", "-o=json", "-I0", ". as $i ireduce ({}; . * $i)"}
		var texts []string
		for i, d := range docs {
			f := filepath.Join(dir, fmt.Sprintf("f%d.yaml", i))
			_ = os.WriteFile(f, []byte(d.JSON()+"\n"), 0o644)
			args = append(args, f)
			texts = append(texts, d.JSON())
		}
		cs["files"] = texts
		cs["expr"] = "yq ea '. as $i ireduce ({}; . * $i)' f0..fN"
		br := mon.Run(mon.RunOpts{Dir: dir}, append([]string{w.YqBin()}, args...)...)
		res.Evals++
		if br.TimedOut {
			res.Verdict, res.Detail = mon.Inconclusive, "binary timed out"
			return res
		}
		if br.Exit != 0 {
			return fail("N-file merge failed (exit %d): %s", br.Exit, clipStr(string(br.Stderr), 300))
		}
		vs, perr := ref.ParseJSONStream(string(br.Stdout))
		if perr != nil || len(vs) != 1 {
			return fail("N-file merge printed %q (%v)", clipStr(string(br.Stdout), 300), perr)
		}
		if !ref.EqualNum(vs[0], acc) {
			return fail("N-file merge of %v\n expected (left fold) %s\n observed %s", texts, acc, vs[0])
		}
		res.Nontrivial = true
		res.Verdict, res.Detail = mon.Held, fmt.Sprintf("%d files folded", n)
		return res
	}
	res.Verdict = mon.Held
	return res
}

// c04DeepCase: documents nested a hundred and more levels deep merge like any other: `{} * b == b`, `a * b` holds what b
// holds at the bottom, `a * a == a`.
func c04DeepCase(w *mon.Worker, r *rand.Rand) mon.Result {
	depth := 98 + r.IntN(12)
	chain := func(leafKey string, leaf *ref.V) *ref.V {
		v := ref.MapV(ref.KV{K: leafKey, V: leaf})
		for i := 0; i < depth; i++ {
			v = ref.MapV(ref.KV{K: "n", V: v})
		}
		return v
	}
	a, b := chain("x", ref.IntV(1)), chain("y", ref.SeqV(ref.IntV(2), ref.StrV("deep")))
	doc := ref.MapV(ref.KV{K: "a", V: a}, ref.KV{K: "b", V: b})
	res := mon.Result{Tags: []string{"family:deep"}, Nontrivial: true, Case: map[string]any{"family": "deep", "depth": depth}}
	res.Sig = fmt.Sprintf("deep|%d", depth)
	want, _ := ref.Merge(a, b, ref.MergeFlags{})
	for _, c := range []struct {
		expr string
		want *ref.V
	}{{"{} * .b", b}, {".a * .b", want}, {".a * .a", a}, {".a *d .b", want}} {
		got, _, err := evalDoc(c.expr, doc)
		res.Evals++
		if err != nil || got == nil || !ref.EqualNum(got, c.want) {
			res.Verdict = mon.Violated
			res.Detail = fmt.Sprintf("`%s` on maps nested %d levels deep: the result is not what the merge of ordinary documents gives (err %v); the bottom of the result reads %s", c.expr, depth, err, clipStr(fmt.Sprint(got), 200)[max(0, len(clipStr(fmt.Sprint(got), 200))-120):])
			return res
		}
	}
	res.Verdict, res.Detail = mon.Held, fmt.Sprintf("depth %d merged", depth)
	return res
}

// c04AliasCase: operands that reach anchored nodes through aliases (as map values and as sequence elements): whatever
// the merge makes of them, `x` and `y` and the anchored nodes read afterwards as they read before.
func c04AliasCase(w *mon.Worker, r *rand.Rand) mon.Result {
	sc := func() string { return []string{"1", "x", "true", "2.5", "'q'"}[r.IntN(5)] }
	text := fmt.Sprintf("base: &p {p: %s, q: [1, 2]}\nlst: &l [%s, %s]\nx:\n  items: [*p, 2, *l]\n  m: *p\n  k: %s\ny:\n  items: [{r: %s}, {s: 1}, [9]]\n  m: {t: %s}\n  k: [1]\n",
		sc(), sc(), sc(), sc(), sc(), sc())
	// (not `n`: `*n` writing through an alias of its left operand is the recorded deviation C08-merge-n-writes-through-alias)
	flags := []string{"", "d", "+", "?", "d+", "c", "d"}[r.IntN(7)]
	res := mon.Result{Tags: []string{"family:aliases", "flags:" + flags}, Nontrivial: true, Case: map[string]any{"family": "aliases", "doc": text, "flags": flags}}
	res.Sig = fmt.Sprintf("aliases|%s|%x", flags, hashStr(text))
	before, e0, p0 := yqx.Eval("[.base, .lst, .x, .y]", text, "yaml", "json")
	if e0 != nil || p0 != nil {
		res.Verdict, res.Detail = mon.Inconclusive, "cannot read the document"
		return res
	}
	for _, tpl := range []string{"[(.x *%s .y) | length, .base, .lst, .x, .y] | .[1:]", "(.x *%s .y) as $m | [.base, .lst, .x, .y]", "[(.y *%s .x) | length, .base, .lst, .x, .y] | .[1:]"} {
		expr := fmt.Sprintf(tpl, flags)
		after, e1, p1 := yqx.Eval(expr, text, "yaml", "json")
		res.Evals++
		if p1 != nil {
			res.Verdict, res.Detail = mon.Violated, fmt.Sprintf("`%s` panicked: %v", expr, p1)
			return res
		}
		if e1 != nil {
			continue // an undefined merge is not this family's business
		}
		if after != before {
			res.Verdict = mon.Violated
			res.Detail = fmt.Sprintf("`%s`: the operands / the anchored nodes read differently after the merge\n before %s after  %s%s", expr, clipStr(before, 500), clipStr(after, 500), text)
			return res
		}
	}
	res.Verdict, res.Detail = mon.Held, "operands and anchored nodes untouched"
	return res
}
