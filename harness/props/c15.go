package props

import (
	"fmt"
	"math"
	"math/big"
	"math/rand/v2"
	"regexp"
	"sort"
	"strings"

	"verifharness/gen"
	"verifharness/mon"
	"verifharness/ref"
	"verifharness/yqx"
)

// C15 — sort, min/max and the comparison operators agree on one consistent total order.
//
// Oracle: laws that need no reference (permutation, stability, idempotence, antisymmetry,
// transitivity, order-independence up to ties) on mixed pools, plus agreement with the reference
// preorder ref.Cmp wherever the property fixes the order (within one class, null < bool < rest).
type c15 struct{}

func init() { mon.Register(c15{}) }

func (c15) ID() string    { return "C15" }
func (c15) Level() string { return "exploration" }
func (c15) Rule() string {
	return "families: (sort) pools of 0-12 scalars mixing null/bool/int (64-bit extremes, hex/octal spellings)/float/strings (incl. number-like) with duplicates: " +
		"output is a permutation, adjacent elements ordered under the reference where defined, idempotent, independent of the input order up to ties; " +
		"(stable) sort_by(.k) over {k,id} maps keeps equal keys in input order; (laws) antisymmetry and transitivity of the order induced by pairwise `sort` on all pairs/triples of a pool of <=7 values; " +
		"(cmp) `.[i] < .[j]`, <=, >, >=, min, max agree with the reference on same-class operands and are mutually consistent; (keys) sort_keys(..) changes key order only; " +
		"(multikey, every 12th case) sort_by(f) with f yielding a tuple of 1-5 keys per element (flat union, hand-parenthesised union, union behind a pipe, collected sequence splatted, splat over a per-element key sequence) over a sequence, a sequence under a path, or a map, columns with few distinct values so that prefixes tie: " +
		"the result is the stable lexicographic order of the generator's own key tuples under the reference (ref.SortBy), also for a shuffled arrangement, and equals sort_by(kN) | ... | sort_by(k1) one key at a time. " +
		"Non-trivial = pool has >=3 elements of >=2 classes or extremes; distinct by hash of the pool."
}
func (c15) Assumptions() []string {
	return []string{
		"the relative order of a number and a string is not fixed by the property: only the reference-free laws are asserted across those classes",
		"NaN is not generated; YAML 1.2 core-schema spellings only (decimal, 0x, 0o)",
	}
}
func (c15) Cases(tier string) int {
	if tier == "thorough" {
		return 150000
	}
	return 9000
}
func (c15) RaceCases(tier string) int {
	if tier == "thorough" {
		return 4000
	}
	return 200
}
func (c15) Floor(tier string) int { return 1500 }

// a pool element: the reference value and its YAML spelling
type c15El struct {
	v    *ref.V
	yaml string
}

var c15Ints = []int64{0, 1, -1, 2, 3, 10, 16, 255, -5, 100, 1000, 1 << 31, -(1 << 31), 1 << 53, 1<<53 + 1, math.MaxInt64, math.MinInt64, math.MaxInt64 - 1, math.MinInt64 + 1, 1 << 62, -(1 << 62), 1<<52 + 1, 1<<52 + 2}
var c15Floats = []float64{0.5, 1.0, 1.5, -2.25, 3.0, 1e3, 1e-3, 10.0, 16.0, 1e21, -1e21, 255.0, 2.5e10, 9.2e18, -9.3e18,
	// neighbours: distinct numbers a relative 1e-13 .. 1e-16 apart (an order with a tolerance is not an order)
	1.0000000000001, 0.9999999999999, 1.5000000000000002, 255.00000000000003, 4503599627370497.5, 1.0000000000001e21, 1e-3 + 1e-17}
var c15Strs = []string{"", "a", "b", "B", "ab", "abc", "10", "9", "1", "2", "1.5", "-1", "0x10", "true", "null", "zed", "é", "Z", "a b", " ", "~", "10a", "1e3", "日本",
	// date-like strings the pinned tree does not read as instants (one-digit fields, a blank before the time): plain strings everywhere
	"2021-1-10", "2021-1-9", "2021-01-9", "2021-3-04 9:30:00", "2021-3-04 10:00:00",
	// strings that spell instants: strings all the same, ordered by code point
	"2021-01-01T00:00:00Z", "2021-01-01T01:00:00+02:00", "2021-01-01T00:30:00Z", "2021-01-01T00:00:00+00:00", "2021-01-01T00:00:00.5Z"}

var c15Instant = regexp.MustCompile(`^\d{4}-\d{2}-\d{2}(T|$)`)

func c15Elem(r *rand.Rand) c15El {
	switch r.IntN(12) {
	case 0:
		return c15El{ref.NullV(), []string{"null", "~"}[r.IntN(2)]}
	case 1:
		b := r.IntN(2) == 0
		sp := []string{"false", "false", "False", "FALSE"}[r.IntN(4)]
		if b {
			sp = []string{"true", "true", "True", "TRUE"}[r.IntN(4)]
		}
		return c15El{ref.BoolV(b), sp}
	case 2, 3, 4, 5:
		i := c15Ints[r.IntN(len(c15Ints))]
		if r.IntN(3) == 0 {
			i = int64(r.IntN(41) - 20)
		}
		sp := fmt.Sprint(i)
		if r.IntN(4) == 0 {
			// a decimal integer written with leading zeros (yq reads 010 as ten, not as octal eight)
			i = []int64{10, 17, 7, 11, 12, 100, 777, -10, -17, 20}[r.IntN(10)]
			if i < 0 {
				return c15El{ref.IntV(i), fmt.Sprintf("-0%d", -i)}
			}
			return c15El{ref.IntV(i), []string{"0", "00"}[r.IntN(2)] + fmt.Sprint(i)}
		}
		if i >= 0 && r.IntN(5) == 0 {
			sp = fmt.Sprintf("0x%X", i)
		} else if i >= 0 && r.IntN(8) == 0 {
			sp = fmt.Sprintf("0o%o", i)
		}
		return c15El{ref.IntV(i), sp}
	case 6, 7:
		f := c15Floats[r.IntN(len(c15Floats))]
		if r.IntN(3) == 0 {
			f = float64(r.IntN(81)-40) / 4
		}
		return c15El{ref.FloatV(f), ref.FormatFloat(f)}
	default:
		s := c15Strs[r.IntN(len(c15Strs))]
		return c15El{ref.StrV(s), ref.QuoteJSON(s)}
	}
}

func c15Pool(r *rand.Rand, max int) []c15El {
	n := r.IntN(max + 1)
	var out []c15El
	for i := 0; i < n; i++ {
		if i > 0 && r.IntN(5) == 0 {
			out = append(out, out[r.IntN(len(out))])
		} else {
			out = append(out, c15Elem(r))
		}
	}
	return out
}

func c15Doc(els []c15El) string {
	parts := make([]string, len(els))
	for i, e := range els {
		parts[i] = e.yaml
	}
	return "[" + strings.Join(parts, ", ") + "]\n"
}

func c15Eval(expr, doc string) ([]*ref.V, error) {
	out, err, pan := yqx.Eval(expr, doc, "yaml", "json")
	if pan != nil {
		return nil, fmt.Errorf("panic: %s", pan.Sig())
	}
	if err != nil {
		return nil, err
	}
	return ref.ParseJSONStream(out)
}

// key for multiset comparison: class + canonical text
func c15Key(v *ref.V) string {
	switch v.K {
	case ref.Int:
		return "n:" + new(big.Float).SetInt(v.I).Text('g', 30)
	case ref.Float:
		return "n:" + new(big.Float).SetFloat64(v.F).Text('g', 30)
	}
	return v.K.String() + ":" + v.JSON()
}

func classes(els []c15El) int {
	m := map[ref.Kind]bool{}
	for _, e := range els {
		k := e.v.K
		if k == ref.Float {
			k = ref.Int
		}
		m[k] = true
	}
	return len(m)
}

func (p c15) Run(w *mon.Worker, idx int) mon.Result {
	r := w.Rand(idx)
	fam := []string{"sort", "sort", "stable", "laws", "cmp", "keys"}[idx%6]
	if idx%12 == 1 {
		fam = "multikey" // every twelfth case (one of the two `sort` slots, every other time)
	}
	res := mon.Result{Tags: []string{"family:" + fam}}
	fail := func(f string, a ...any) mon.Result {
		res.Verdict = mon.Violated
		res.Detail = fmt.Sprintf(f, a...)
		return res
	}
	switch fam {
	case "multikey":
		return c15MultiKey(r, res)
	case "sort":
		els := c15Pool(r, 12)
		if r.IntN(4) == 0 {
			els = c15Pool(r, 60)
		}
		doc := c15Doc(els)
		res.Case = map[string]any{"doc": doc, "expr": "sort"}
		res.Sig = fmt.Sprintf("sort|%x", hashStr(doc))
		res.Nontrivial = len(els) >= 3 && classes(els) >= 2
		got, err := c15Eval("sort", doc)
		res.Evals++
		if err != nil || len(got) != 1 || got[0].K != ref.Seq {
			return fail("`sort` failed on %s: %v", strings.TrimSpace(doc), err)
		}
		out := got[0].A
		// permutation
		in := map[string]int{}
		for _, e := range els {
			in[c15Key(e.v)]++
		}
		for _, v := range out {
			in[c15Key(v)]--
		}
		for k, c := range in {
			if c != 0 {
				return fail("sort is not a permutation of its input (element %s count off by %d)\n input  %s output %s", k, c, doc, got[0])
			}
		}
		// ordered where the reference defines the order
		for i := 0; i+1 < len(out); i++ {
			for j := i + 1; j < len(out); j++ {
				if c, cerr := ref.Cmp(out[i], out[j]); cerr == nil && c > 0 {
					return fail("sort output is not ordered: %s comes before %s\n input  %s output %s", out[i], out[j], doc, got[0])
				}
			}
		}
		// idempotent
		again, err2 := c15Eval("sort | sort", doc)
		res.Evals++
		if err2 != nil || len(again) != 1 || !ref.EqualNum(again[0], got[0]) {
			return fail("sort is not idempotent: sort=%s, sort|sort=%v (err %v)", got[0], again, err2)
		}
		// independent of the input order up to ties: sort a shuffled copy
		sh := append([]c15El{}, els...)
		r.Shuffle(len(sh), func(i, j int) { sh[i], sh[j] = sh[j], sh[i] })
		got2, err3 := c15Eval("sort", c15Doc(sh))
		res.Evals++
		if err3 != nil || len(got2) != 1 {
			return fail("`sort` failed on a permutation of the same pool: %v", err3)
		}
		for i := range out {
			if i >= len(got2[0].A) {
				break
			}
			a, b := out[i], got2[0].A[i]
			if c15Key(a) != c15Key(b) {
				// allowed only if the reference says the two are a tie (e.g. 1 and 1.0 and 0x1)
				if c, cerr := ref.Cmp(a, b); cerr != nil || c != 0 {
					return fail("sort depends on the input order: position %d is %s for %s but %s for the permutation %s", i, a, strings.TrimSpace(doc), b, strings.TrimSpace(c15Doc(sh)))
				}
			}
		}
		if r.IntN(3) == 0 {
			// several sequences through ONE sort invocation: each result is the sort of its own input
			n := 2 + r.IntN(2)
			pools := [][]c15El{els}
			for i := 1; i < n; i++ {
				pools = append(pools, c15Pool(r, 8))
			}
			r.Shuffle(len(pools), func(i, j int) { pools[i], pools[j] = pools[j], pools[i] })
			var parts []string
			var want []*ref.V
			for _, pl := range pools {
				parts = append(parts, strings.TrimSpace(c15Doc(pl)))
				one, e1 := c15Eval("sort", c15Doc(pl))
				res.Evals++
				if e1 != nil || len(one) != 1 {
					return fail("`sort` failed on %s: %v", c15Doc(pl), e1)
				}
				want = append(want, one[0])
			}
			multi := "[" + strings.Join(parts, ", ") + "]\n"
			res.Tags = append(res.Tags, "sort:several_sequences")
			for _, ex := range []string{".[] | sort", "map(sort)", "[.[] | sort_by(.)]"} {
				gs, e2 := c15Eval(ex, multi)
				res.Evals++
				if e2 != nil {
					return fail("`%s` failed on %s: %v", ex, multi, e2)
				}
				if ex != ".[] | sort" {
					if len(gs) != 1 || gs[0].K != ref.Seq {
						return fail("`%s` on %s: expected one sequence, got %v", ex, multi, gs)
					}
					gs = gs[0].A
				}
				if len(gs) != len(want) {
					return fail("`%s` on %s: %d results for %d sequences", ex, strings.TrimSpace(multi), len(gs), len(want))
				}
				for i := range gs {
					if !ref.EqualNum(gs[i], want[i]) {
						return fail("`%s` on %s: result %d is %s, but `sort` of that sequence alone gives %s", ex, strings.TrimSpace(multi), i, gs[i], want[i])
					}
				}
			}
		}
		res.Verdict = mon.Held
		res.Detail = fmt.Sprintf("%s -> %s", strings.TrimSpace(doc), got[0])
		return res

	case "stable":
		if r.IntN(3) == 0 {
			// scalar elements under a key function that is not injective on them: elements with equal keys keep
			// their input order whatever their own values are
			n := 3 + r.IntN(10)
			vals := make([]int, n)
			var items []string
			for i := range vals {
				vals[i] = r.IntN(40)
				items = append(items, fmt.Sprint(vals[i]))
			}
			type kf struct {
				expr string
				key  func(int) int
			}
			f := []kf{
				{". % 3", func(v int) int { return v % 3 }},
				{". > 20", func(v int) int { return b2i(v > 20) }},
				{"tostring | length", func(v int) int { return len(fmt.Sprint(v)) }},
				{". - (. % 10)", func(v int) int { return v - v%10 }},
				{"(. % 2) + 0.5", func(v int) int { return v % 2 }},
			}[r.IntN(5)]
			doc := "[" + strings.Join(items, ", ") + "]\n"
			ex := "sort_by(" + f.expr + ")"
			res.Case = map[string]any{"doc": doc, "expr": ex}
			res.Sig = fmt.Sprintf("stable-scalars|%x", hashStr(doc+ex))
			res.Nontrivial = true
			res.Tags = append(res.Tags, "stable:scalars")
			want := append([]int(nil), vals...)
			sort.SliceStable(want, func(i, j int) bool { return f.key(want[i]) < f.key(want[j]) })
			got, err := c15Eval(ex, doc)
			res.Evals++
			if err != nil || len(got) != 1 || got[0].K != ref.Seq || len(got[0].A) != n {
				return fail("`%s` failed on %s: %v %v", ex, doc, err, got)
			}
			for i, g := range got[0].A {
				if g.K != ref.Int || g.I.Int64() != int64(want[i]) {
					return fail("`%s` on %s gives %s; ordered by the key alone with equal keys in input order it is %v", ex, strings.TrimSpace(doc), got[0], want)
				}
			}
			res.Verdict, res.Detail = mon.Held, fmt.Sprintf("%d scalars, stable under %s", n, f.expr)
			return res
		}
		// short and long inputs (library sorts switch algorithm with the length), many equal keys
		n := 2 + r.IntN(9)
		if r.IntN(3) == 0 {
			n = 11 + r.IntN(50)
		}
		var sb strings.Builder
		sb.WriteString("[")
		keys := make([]c15El, n)
		for i := 0; i < n; i++ {
			if i > 0 && (r.IntN(2) == 0 || (n > 12 && r.IntN(4) > 0)) {
				keys[i] = keys[r.IntN(min(i, 6))]
			} else {
				keys[i] = c15Elem(r)
			}
			if i > 0 {
				sb.WriteString(", ")
			}
			fmt.Fprintf(&sb, "{k: %s, id: %d}", keys[i].yaml, i)
		}
		sb.WriteString("]\n")
		doc := sb.String()
		res.Case = map[string]any{"doc": doc, "expr": "sort_by(.k)"}
		res.Sig = fmt.Sprintf("stable|%x", hashStr(doc))
		res.Nontrivial = n >= 3
		got, err := c15Eval("sort_by(.k)", doc)
		res.Evals++
		if err != nil || len(got) != 1 || got[0].K != ref.Seq || len(got[0].A) != n {
			return fail("`sort_by(.k)` failed on %s: %v %v", doc, err, got)
		}
		seen := map[int64]bool{}
		for i, m := range got[0].A {
			id, _ := m.Get("id")
			if id == nil || id.K != ref.Int || seen[id.I.Int64()] {
				return fail("sort_by output is not a permutation (ids): %s", got[0])
			}
			seen[id.I.Int64()] = true
			if i > 0 {
				pk, _ := got[0].A[i-1].Get("k")
				ck, _ := m.Get("k")
				pid, _ := got[0].A[i-1].Get("id")
				if c, cerr := ref.Cmp(pk, ck); cerr == nil {
					if c > 0 {
						return fail("sort_by(.k) not ordered: key %s before %s\n input %s output %s", pk, ck, doc, got[0])
					}
					if c == 0 && c15Key(pk) == c15Key(ck) && pid.I.Int64() > id.I.Int64() {
						return fail("sort_by(.k) is not stable: equal keys %s came out as id %s before id %s\n input %s output %s", pk, pid, id, doc, got[0])
					}
				}
			}
		}
		res.Verdict, res.Detail = mon.Held, fmt.Sprintf("%d elements, stable", n)
		return res

	case "laws":
		els := c15Pool(r, 7)
		for len(els) < 3 {
			els = append(els, c15Elem(r))
		}
		doc := c15Doc(els)
		res.Case = map[string]any{"doc": doc, "expr": "pairwise [a,b] | sort"}
		res.Sig = fmt.Sprintf("laws|%x", hashStr(doc))
		res.Nontrivial = classes(els) >= 2
		n := len(els)
		// le[i][j]: i sorts before-or-equal j according to pairwise sort of [i,j] AND of [j,i]
		lt := make([][]int, n) // -1 i<j, 0 tie, 1 i>j, 9 unknown
		for i := range lt {
			lt[i] = make([]int, n)
		}
		for i := 0; i < n; i++ {
			for j := 0; j < n; j++ {
				if i == j {
					continue
				}
				ab, err1 := c15Eval("sort", c15Doc([]c15El{els[i], els[j]}))
				ba, err2 := c15Eval("sort", c15Doc([]c15El{els[j], els[i]}))
				res.Evals += 2
				if err1 != nil || err2 != nil || len(ab) != 1 || len(ba) != 1 {
					return fail("pairwise sort failed for %s / %s: %v %v", els[i].yaml, els[j].yaml, err1, err2)
				}
				ki, kj := c15Key(els[i].v), c15Key(els[j].v)
				firstAB := c15Key(ab[0].A[0])
				firstBA := c15Key(ba[0].A[0])
				switch {
				case ki == kj:
					lt[i][j] = 0
				case firstAB == ki && firstBA == ki:
					lt[i][j] = -1
				case firstAB == kj && firstBA == kj:
					lt[i][j] = 1
				case firstAB == ki && firstBA == kj:
					lt[i][j] = 0 // a tie kept in input order both times (stable)
				default:
					// [a,b] -> b first AND [b,a] -> a first: each order reversed: antisymmetry broken
					return fail("antisymmetry: sort([%s, %s]) = %s but sort([%s, %s]) = %s", els[i].yaml, els[j].yaml, ab[0], els[j].yaml, els[i].yaml, ba[0])
				}
			}
		}
		for i := 0; i < n; i++ {
			for j := 0; j < n; j++ {
				for k := 0; k < n; k++ {
					if i == j || j == k || i == k {
						continue
					}
					if lt[i][j] <= 0 && lt[j][k] <= 0 && lt[i][k] > 0 {
						return fail("transitivity: %s <= %s and %s <= %s under pairwise sort, but %s > %s", els[i].yaml, els[j].yaml, els[j].yaml, els[k].yaml, els[i].yaml, els[k].yaml)
					}
					if lt[i][j] < 0 && lt[j][k] < 0 && lt[i][k] >= 0 {
						return fail("transitivity: %s < %s and %s < %s under pairwise sort, but not %s < %s", els[i].yaml, els[j].yaml, els[j].yaml, els[k].yaml, els[i].yaml, els[k].yaml)
					}
				}
			}
		}
		// the full sort must be consistent with the pairwise order
		full, err := c15Eval("sort", doc)
		res.Evals++
		if err != nil || len(full) != 1 {
			return fail("sort failed: %v", err)
		}
		pos := map[string]int{}
		for i, v := range full[0].A {
			if _, ok := pos[c15Key(v)]; !ok {
				pos[c15Key(v)] = i
			}
		}
		for i := 0; i < n; i++ {
			for j := 0; j < n; j++ {
				if i != j && lt[i][j] < 0 && pos[c15Key(els[i].v)] > pos[c15Key(els[j].v)] {
					return fail("full sort disagrees with pairwise sort: %s < %s pairwise but sort(%s) = %s", els[i].yaml, els[j].yaml, strings.TrimSpace(doc), full[0])
				}
			}
		}
		res.Verdict, res.Detail = mon.Held, fmt.Sprintf("%d values: antisymmetric, transitive, consistent", n)
		return res

	case "cmp":
		els := c15Pool(r, 6)
		{
			// a string that spells an instant is a date-time to the comparison operators (documented: they compare
			// date-times as times, and fail when the other side is not one); `sort` orders it as the string it is. Not
			// the same relation: such strings stay in the sort / stable / laws families only
			kept := els[:0]
			for _, e := range els {
				if !(e.v.K == ref.Str && c15Instant.MatchString(e.v.S)) {
					kept = append(kept, e)
				}
			}
			els = kept
		}
		for len(els) < 2 {
			if e := c15Elem(r); !(e.v.K == ref.Str && c15Instant.MatchString(e.v.S)) {
				els = append(els, e)
			}
		}
		doc := c15Doc(els)
		res.Case = map[string]any{"doc": doc, "expr": ".[i] OP .[j], min, max"}
		res.Sig = fmt.Sprintf("cmp|%x", hashStr(doc))
		res.Nontrivial = true
		n := len(els)
		for i := 0; i < n; i++ {
			for j := 0; j < n; j++ {
				a, b := els[i].v, els[j].v
				c, cerr := ref.Cmp(a, b)
				sameClass := cerr == nil && rankOf(a) == rankOf(b) && rankOf(a) >= 2
				vals := map[string]*bool{}
				for _, op := range []string{"<", "<=", ">", ">="} {
					rs, err := c15Eval(fmt.Sprintf(".[%d] %s .[%d]", i, op, j), doc)
					res.Evals++
					if err != nil {
						if sameClass {
							return fail("`%s %s %s` failed: %v", els[i].yaml, op, els[j].yaml, err)
						}
						continue
					}
					if len(rs) != 1 || rs[0].K != ref.Bool {
						return fail("`%s %s %s` did not yield one boolean: %v", els[i].yaml, op, els[j].yaml, rs)
					}
					bv := rs[0].B
					vals[op] = &bv
					if sameClass || (cerr == nil && rankOf(a) >= 2 && rankOf(b) >= 2) {
						// (across the classes of numbers and strings too: an answer, where yq gives one, is the order's answer)
						want := map[string]bool{"<": c < 0, "<=": c <= 0, ">": c > 0, ">=": c >= 0}[op]
						if bv != want {
							return fail("`%s %s %s` is %v, the reference order says %v", els[i].yaml, op, els[j].yaml, bv, want)
						}
					}
				}
				// mutual consistency wherever yq answers: not (a<b and a>b); a<b implies a<=b
				if vals["<"] != nil && vals[">"] != nil && *vals["<"] && *vals[">"] {
					return fail("both `%s < %s` and `%s > %s` are true", els[i].yaml, els[j].yaml, els[i].yaml, els[j].yaml)
				}
				if vals["<"] != nil && vals["<="] != nil && *vals["<"] && !*vals["<="] {
					return fail("`%s < %s` is true but `<=` is false", els[i].yaml, els[j].yaml)
				}
			}
		}
		// min / max on single-class pools
		single := true
		for _, e := range els {
			if rankOf(e.v) != rankOf(els[0].v) || rankOf(e.v) < 2 {
				single = false
			}
		}
		numStr := !single
		for _, e := range els {
			numStr = numStr && rankOf(e.v) >= 2
		}
		if numStr {
			// numbers and strings mixed: yq may refuse (a number and a string are not comparable to `<`); an answer, if it
			// gives one, is the order's answer
			for _, fn := range []string{"min", "max"} {
				rs, err := c15Eval(fn, doc)
				res.Evals++
				if err != nil || len(rs) != 1 {
					continue
				}
				for _, e := range els {
					c, _ := ref.Cmp(rs[0], e.v)
					if (fn == "min" && c > 0) || (fn == "max" && c < 0) {
						return fail("`%s` of %s is %s but %s is %s in the sort order", fn, strings.TrimSpace(doc), rs[0], e.yaml, map[string]string{"min": "smaller", "max": "larger"}[fn])
					}
				}
				res.Tags = append(res.Tags, "minmax_mixed_answered")
			}
		}
		if single {
			for _, fn := range []string{"min", "max"} {
				rs, err := c15Eval(fn, doc)
				res.Evals++
				if err != nil || len(rs) != 1 {
					return fail("`%s` failed on %s: %v", fn, doc, err)
				}
				for _, e := range els {
					c, _ := ref.Cmp(rs[0], e.v)
					if (fn == "min" && c > 0) || (fn == "max" && c < 0) {
						return fail("`%s` of %s is %s but %s is %s", fn, strings.TrimSpace(doc), rs[0], e.yaml, map[string]string{"min": "smaller", "max": "larger"}[fn])
					}
				}
				res.Tags = append(res.Tags, "minmax")
			}
			// the same pool with nulls strewn in (a comparison with null answers false both ways): a non-null
			// answer of min / max is still not beaten by any element of the pool
			if len(els) >= 2 {
				mixed := append([]c15El{}, els...)
				for k := 0; k < 1+r.IntN(2); k++ {
					pos := r.IntN(len(mixed) + 1)
					mixed = append(mixed[:pos:pos], append([]c15El{{ref.NullV(), []string{"null", "~"}[r.IntN(2)]}}, mixed[pos:]...)...)
				}
				mdoc := c15Doc(mixed)
				for _, fn := range []string{"min", "max"} {
					rs, err := c15Eval(fn, mdoc)
					res.Evals++
					if err != nil || len(rs) != 1 {
						return fail("`%s` failed on %s: %v", fn, mdoc, err)
					}
					if rs[0].K == ref.Null {
						continue
					}
					for _, e := range els {
						c, _ := ref.Cmp(rs[0], e.v)
						if (fn == "min" && c > 0) || (fn == "max" && c < 0) {
							return fail("`%s` of %s is %s but %s is %s", fn, strings.TrimSpace(mdoc), rs[0], e.yaml, map[string]string{"min": "smaller", "max": "larger"}[fn])
						}
					}
				}
				res.Tags = append(res.Tags, "minmax_with_nulls")
			}
		}
		res.Verdict, res.Detail = mon.Held, fmt.Sprintf("%d values compared pairwise", n)
		return res

	case "keys":
		pr := gen.Default()
		pr.OnlyMaps, pr.NoBigInt = true, true
		pr.MaxDepth = 2 + r.IntN(3)
		pr.MaxWidth = 2 + r.IntN(5)
		pr.Keys = []string{"b", "a", "z", "Z", "10", "9", "k", "aa", "é", "_"}
		pr.PlainStr = true
		doc := gen.Value(r, pr)
		res.Case = map[string]any{"doc": doc.JSON(), "expr": "sort_keys(..)"}
		res.Sig = fmt.Sprintf("keys|%x", doc.ShapeHash())
		got, _, err := evalDoc("sort_keys(..)", doc)
		res.Evals++
		if err != nil || got == nil {
			return fail("sort_keys(..) failed: %v", err)
		}
		nkeys := 0
		var check func(a, b *ref.V, path string) string
		check = func(a, b *ref.V, path string) string {
			if a.K != b.K && !(a.IsNum() && b.IsNum()) {
				return fmt.Sprintf("kind changed at %s", path)
			}
			switch a.K {
			case ref.Map:
				if len(a.M) != len(b.M) {
					return fmt.Sprintf("number of keys changed at %s", path)
				}
				ks := make([]string, len(b.M))
				for i, kv := range b.M {
					ks[i] = kv.K
					x, ok := a.Get(kv.K)
					if !ok {
						return fmt.Sprintf("key %q appeared at %s", kv.K, path)
					}
					if d := check(x, kv.V, path+"."+kv.K); d != "" {
						return d
					}
				}
				nkeys += len(ks)
				if !sort.StringsAreSorted(ks) {
					return fmt.Sprintf("keys at %s are not sorted: %q", path, ks)
				}
			case ref.Seq:
				if len(a.A) != len(b.A) {
					return fmt.Sprintf("sequence length changed at %s", path)
				}
				for i := range a.A {
					if d := check(a.A[i], b.A[i], fmt.Sprintf("%s[%d]", path, i)); d != "" {
						return d
					}
				}
			default:
				if !ref.EqualNum(a, b) {
					return fmt.Sprintf("value changed at %s: %s -> %s", path, a, b)
				}
			}
			return ""
		}
		if d := check(doc, got, ""); d != "" {
			return fail("sort_keys(..): %s\n input  %s\n output %s", d, doc, got)
		}
		res.Nontrivial = nkeys >= 3
		res.Verdict, res.Detail = mon.Held, fmt.Sprintf("%d keys, only their order changed", nkeys)
		return res
	}
	res.Verdict = mon.Held
	return res
}

func rankOf(v *ref.V) int {
	switch v.K {
	case ref.Null:
		return 0
	case ref.Bool:
		return 1
	case ref.Int, ref.Float:
		return 2
	case ref.Str:
		return 3
	}
	return -1
}

func b2i(b bool) int {
	if b {
		return 1
	}
	return 0
}
