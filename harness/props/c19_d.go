package props

import (
	"bytes"
	"context"
	"fmt"
	"os"
	"os/exec"
	"path/filepath"
	"regexp"
	"strings"
	"syscall"
	"time"

	"verifharness/mon"
)

// Family D — `-n` / `--null-input` reads no input.
//
// stdin of yq is a pipe whose write end stays open in the harness (so it never reports EOF) and that
// holds invalid YAML. yq runs under `strace -f -e trace=read,readv,pread64`. Required: yq finishes
// with the value of the expression, exit 0; the trace has no read on fd 0; afterwards the bytes are
// still in the pipe. A hang is decided by the trace (a read(0, …) in it => violation), never by the
// watchdog alone. Every case first runs a positive control (no -n, stdin closed after valid YAML): the
// trace must show read(0, …), else the detector is blind and the case is inconclusive.
// Also: -n together with file arguments must be refused with a message.

var c19ReadFd0 = regexp.MustCompile(`\b(read|readv|pread64)\(0,`)

type c19PipeRun struct {
	mon.ExecResult
	trace    string
	residue  []byte // what is still in the stdin pipe after yq ended
	readFd0  bool
	traceErr string
}

// runTraced runs yq under strace with the read end of a pipe as stdin. If keepOpen, the write end stays
// open until yq has ended (never EOF); else it is closed right after writing.
func (c *c19ctx) runTraced(stdin []byte, keepOpen bool, wall time.Duration, args ...string) c19PipeRun {
	c.res.Evals++
	var out c19PipeRun
	logf := filepath.Join(c.dir, fmt.Sprintf("strace-%d.log", len(c.cmds)))
	pr, pw, err := os.Pipe()
	if err != nil {
		out.traceErr = err.Error()
		return out
	}
	defer pr.Close()
	defer pw.Close()
	if _, err := pw.Write(stdin); err != nil { // far below the pipe capacity: cannot block
		out.traceErr = err.Error()
		return out
	}
	if !keepOpen {
		pw.Close()
	}
	ctx, cancel := context.WithTimeout(context.Background(), wall)
	defer cancel()
	argv := append([]string{"--cpu=20", "--", "/usr/bin/strace", "-f", "-qq", "-o", logf, "-e", "trace=read,readv,pread64", c.w.YqBin()}, args...)
	cmd := exec.CommandContext(ctx, "/usr/bin/prlimit", argv...)
	cmd.Dir = c.dir
	cmd.Env = mon.CleanEnv()
	cmd.Stdin = pr
	var so, se bytes.Buffer
	cmd.Stdout, cmd.Stderr = &so, &se
	cmd.SysProcAttr = &syscall.SysProcAttr{Setpgid: true}
	cmd.WaitDelay = 10 * time.Second
	runErr := cmd.Run()
	if cmd.Process != nil {
		_ = syscall.Kill(-cmd.Process.Pid, syscall.SIGKILL)
	}
	out.Stdout, out.Stderr = so.Bytes(), se.Bytes()
	line := c19Quote(args) + fmt.Sprintf("   # under strace, stdin = pipe holding %q, write end kept open: %v", clipStr(string(stdin), 60), keepOpen)
	if ctx.Err() != nil {
		out.TimedOut = true
		out.Exit = -1
		line += "   # TIMED OUT"
	} else if runErr != nil {
		if ee, ok := runErr.(*exec.ExitError); ok {
			ws := ee.Sys().(syscall.WaitStatus)
			if ws.Signaled() {
				out.Exit, out.Signal = -1, int(ws.Signal())
			} else {
				out.Exit = ws.ExitStatus()
			}
		} else {
			out.Exit = -2
			out.traceErr = runErr.Error()
		}
	}
	if out.Signal == 9 || out.Signal == 24 {
		out.traceErr = fmt.Sprintf("killed by signal %d", out.Signal)
	}
	if !out.TimedOut {
		line += fmt.Sprintf("   # exit %d", out.Exit)
		c.tag(fmt.Sprintf("exit:%d", out.Exit))
	}
	c.cmds = append(c.cmds, line)
	if b, err := os.ReadFile(logf); err == nil {
		out.trace = string(b)
		out.readFd0 = c19ReadFd0.MatchString(out.trace)
	} else {
		out.traceErr = "no strace log: " + err.Error()
	}
	// what is left in the pipe
	if keepOpen {
		fd := int(pr.Fd())
		_ = syscall.SetNonblock(fd, true)
		buf := make([]byte, len(stdin)+16)
		n, _ := syscall.Read(fd, buf)
		if n > 0 {
			out.residue = buf[:n]
		}
	}
	return out
}

var c19NullInputExprs = []struct{ e, json string }{
	{"1 + 1", "2\n"},
	{`"a" + "b"`, "\"ab\"\n"},
	{`{"a": 1}`, "{\"a\":1}\n"},
	{`[1, 2] | .[]`, "1\n2\n"},
	{`.a.b = "cat"`, "{\"a\":{\"b\":\"cat\"}}\n"},
	{`.`, "null\n"},
	{`[.]`, "[null]\n"},
	{`"x" | length`, "1\n"},
	{`{"k": [true, null]} | .k[0]`, "true\n"},
	{`3, 4`, "3\n4\n"},
}

var c19Garbage = []string{"bad: [\n", "{{{{\n", "a: 1\n\tb: 2\n", "\"unterminated\n", "}\n---\n]\n", "\x00\x01\x02"}

func (c *c19ctx) familyD() {
	sub := c.idx / len(c19Families)
	if sub%5 == 4 {
		c.nullInputWithFiles()
		return
	}
	c.group = "D-trace"
	// positive control: the detector must see yq reading stdin when it is supposed to
	ctl := c.runTraced([]byte("{\"ctl\": 1}\n"), false, 20*time.Second, "-o=json", "-I0", ".ctl")
	if ctl.TimedOut || ctl.traceErr != "" || ctl.Exit != 0 || string(ctl.Stdout) != "1\n" || !ctl.readFd0 {
		c.tag("control_blind")
		c.inconclusive("positive control failed (timeout=%v traceErr=%q exit=%d stdout=%q read(0) seen=%v): the strace detector cannot be trusted here",
			ctl.TimedOut, ctl.traceErr, ctl.Exit, clipStr(string(ctl.Stdout), 60), ctl.readFd0)
		return
	}
	c.tag("control_saw_read0")
	k := c19NullInputExprs[c.r.IntN(len(c19NullInputExprs))]
	garbage := c19Garbage[c.r.IntN(len(c19Garbage))]
	flag := []string{"-n", "--null-input", "-n=true"}[c.r.IntN(3)]
	args := []string{flag, "-o=json", "-I0", k.e}
	switch c.r.IntN(4) {
	case 0:
		args = []string{"-o=json", "-I0", flag, k.e}
	case 1:
		args = []string{"eval", flag, "-o=json", "-I0", k.e}
	case 2:
		args = []string{"ea", flag, "-o=json", "-I0", k.e}
		c.tag("mode:ea")
	}
	c.tag("flag:"+flag, "expr:"+k.e)
	x := c.runTraced([]byte(garbage), true, 8*time.Second, args...)
	what := fmt.Sprintf("%s with a never-closing stdin pipe holding %q", c19Quote(args), garbage)
	switch {
	case x.traceErr != "" && !x.TimedOut:
		c.inconclusive("strace did not run: %s", x.traceErr)
		return
	case x.readFd0:
		c.violate("%s: yq READ STDIN although -n was given; trace lines: %s", what, clipStr(strings.Join(c19ReadFd0Lines(x.trace), " | "), 400))
		return
	case x.TimedOut:
		// no read on fd 0 in the trace: the watchdog alone decides nothing
		c.timedOut = true
		c.inconclusive("%s: watchdog fired and the trace shows no read on fd 0", what)
		return
	}
	if c19Crashed(x.ExecResult) {
		c.violate("%s: crash: %s", what, clipStr(string(x.Stderr), 300))
		return
	}
	if x.Exit != 0 {
		c.violate("%s: exit %d, expected 0; stderr=%q", what, x.Exit, clipStr(string(x.Stderr), 300))
		return
	}
	if string(x.Stdout) != k.json {
		c.violate("%s: stdout %q, expected %q", what, clipStr(string(x.Stdout), 200), k.json)
		return
	}
	if !bytes.Equal(x.residue, []byte(garbage)) {
		c.violate("%s: the stdin pipe held %q before and %q after the run — input was consumed", what, garbage, clipStr(string(x.residue), 100))
		return
	}
	c.res.Nontrivial = x.trace != ""
	c.say(fmt.Sprintf("%s -> exit 0, %q, %d traced read calls none on fd 0, pipe content untouched", what, strings.TrimSpace(k.json), strings.Count(x.trace, "\n")))
}

func c19ReadFd0Lines(trace string) []string {
	var out []string
	for _, l := range strings.Split(trace, "\n") {
		if c19ReadFd0.MatchString(l) {
			out = append(out, l)
		}
	}
	return out
}

// -n together with files (or "-") is refused.
func (c *c19ctx) nullInputWithFiles() {
	c.group = "D-files"
	c.tag("mode:-n_with_files")
	c.write("n.yaml", "{\"a\": 1}\n")
	variants := [][]string{
		{"-n", ".a", "n.yaml"},
		{"-n", "-o=json", ".", "n.yaml", "n.yaml"},
		{"ea", "-n", ".a", "n.yaml"},
		{"--null-input", ".a", "-"},
		{"-n", ".a", "missing.yaml"},
	}
	v := variants[c.r.IntN(len(variants))]
	var stdin []byte
	if v[len(v)-1] == "-" {
		stdin = []byte("{\"a\": 2}\n")
	}
	x := c.yq(stdin, v...)
	if x.TimedOut {
		return
	}
	what := c19Quote(v) + " (null input together with a file argument)"
	c.res.Nontrivial = true
	if c.failedProperly(x, what) {
		if len(x.Stdout) != 0 {
			c.violate("%s: refused, but printed %q", what, clipStr(string(x.Stdout), 200))
			return
		}
		c.say(what + " -> refused: " + clipStr(strings.TrimSpace(string(x.Stderr)), 120))
	}
}
