package props

import (
	"fmt"
	"math/rand/v2"
	"strings"

	"verifharness/mon"
	"verifharness/yqx"
)

// Argument-separator family of C09: in a two-argument prefix function `f(A; B)` the `;` splits the
// bracket content into the two arguments; a union written without brackets in the second argument
// (`f(A; B, C)`) belongs to that argument, i.e. it means `f(A; (B, C))`. (`;` and `,` carry the same
// number in the precedence table, so the table alone does not say this; the grammar of two-argument
// functions does.) Oracle: both spellings give the same results / the same error status on the document.
// Interpolation family: the expression inside each `\( ... )` of a string literal is an expression like any
// other: redundant brackets around it (or inside it) and calls with bracketed arguments change nothing, in the
// first interpolation of a literal as well as in the later ones.
func c09InterpCase(w *mon.Worker, r *rand.Rand) mon.Result {
	doc := "{\"a\": \"x\", \"b\": 3, \"n\": [1, 2, 3], \"m\": {\"k\": \"v\"}}\n"
	inner := []string{".a", ".b", ".n[1]", ".m.k", ".b + 1", ".n | length", ".n | map(. * 2) | .[1]", ".m | keys | .[0]", ".a | upcase", ".n | join(\"-\")", "\"q\"", ".b * (2 + 1)"}
	k := 2 + r.IntN(3)
	var plain, bracketed strings.Builder
	plain.WriteString("\"")
	bracketed.WriteString("\"")
	for i := 0; i < k; i++ {
		e := inner[r.IntN(len(inner))]
		sep := []string{"-", " ", ": ", ")(", "(", ")", ""}[r.IntN(7)]
		plain.WriteString("\\(" + e + ")" + sep)
		if r.IntN(3) > 0 {
			e = "(" + e + ")"
			if r.IntN(4) == 0 {
				e = "(" + e + ")"
			}
		}
		bracketed.WriteString("\\(" + e + ")" + sep)
	}
	plain.WriteString("\"")
	bracketed.WriteString("\"")
	a, b := plain.String(), bracketed.String()
	res := mon.Result{Tags: []string{"family:interpolation", fmt.Sprintf("interpolations:%d", k)}, Nontrivial: a != b}
	res.Case = map[string]any{"minimal": a, "bracketed": b, "doc": doc}
	res.Sig = "interp|" + b
	o1, e1, p1 := yqx.Eval(a, doc, "yaml", "json")
	o2, e2, p2 := yqx.Eval(b, doc, "yaml", "json")
	res.Evals += 2
	if p1 != nil || p2 != nil {
		res.Verdict, res.Detail = mon.Violated, fmt.Sprintf("panic while evaluating %s / %s: %v %v", a, b, p1, p2)
		return res
	}
	if (e1 != nil) != (e2 != nil) || (e1 == nil && o1 != o2) {
		res.Verdict = mon.Violated
		res.Detail = fmt.Sprintf("redundant brackets inside an interpolation change the result\n plain:     %s -> %s (err=%v)\n bracketed: %s -> %s (err=%v)", a, clipStr(o1, 200), e1, b, clipStr(o2, 200), e2)
		return res
	}
	res.Verdict, res.Detail = mon.Held, "same result"
	return res
}

// Prefix-function family: a one-argument function is a prefix operator with a precedence of its own; a traversal
// written right after its bracketed argument binds to that ARGUMENT when the function binds looser (del, 40, below
// `.k` 45 and `[n]` 50) or equally (join / has / test / contains, 50, next to `[n]` 50; ties group to the right):
// `del(.a).b` is `del((.a).b)`. Oracle: both spellings give the same results on the document.
func c09PrefixFnCase(w *mon.Worker, r *rand.Rand) mon.Result {
	doc := "{\"a\": {\"b\": 1, \"c\": [5, 6], \"d\": {\"e\": 2}}, \"s\": \"p-q\", \"l\": [\"x\", \"y\"], \"m\": [[1, 2], [3]]}\n"
	pick := func(p []string) string { return p[r.IntN(len(p))] }
	var min, full string
	switch r.IntN(8) {
	case 0:
		x, k := pick([]string{".a", ".a.d", ".m"}), pick([]string{".b", ".c", ".e", "[0]", "[1]", ".c[0]"})
		min, full = fmt.Sprintf("del(%s)%s", x, k), fmt.Sprintf("del((%s)%s)", x, k)
	case 1:
		i := r.IntN(2)
		min, full = fmt.Sprintf(`.l | join(["-", "+"])[%d]`, i), fmt.Sprintf(`.l | join((["-", "+"])[%d])`, i)
	case 2:
		i := r.IntN(2)
		min, full = fmt.Sprintf(`has(["a", "zz"])[%d]`, i), fmt.Sprintf(`has((["a", "zz"])[%d])`, i)
	case 3:
		i := r.IntN(2)
		min, full = fmt.Sprintf(`.s | test(["q", "z"])[%d]`, i), fmt.Sprintf(`.s | test((["q", "z"])[%d])`, i)
	case 4:
		i := r.IntN(2)
		min, full = fmt.Sprintf(`.l | contains([["x"], ["q"]])[%d]`, i), fmt.Sprintf(`.l | contains(([["x"], ["q"]])[%d])`, i)
	case 5:
		x := pick([]string{".a", ".m"})
		min, full = fmt.Sprintf("del(%s)[0] | length", x), fmt.Sprintf("del((%s)[0]) | length", x)
	default:
		// the level form of parent takes a traversal right behind it like the plain form does
		n, k := 1+r.IntN(2), pick([]string{".b", ".c", `.["d"]`, ".c[0]", " .b"})
		min, full = fmt.Sprintf(".a.d.e | parent(%d)%s", n, k), fmt.Sprintf(".a.d.e | (parent(%d)) | %s", n, strings.TrimSpace(k))
	}
	res := mon.Result{Tags: []string{"family:prefix-function-then-traversal"}, Nontrivial: true}
	res.Case = map[string]any{"minimal": min, "full": full, "doc": doc}
	res.Sig = "prefixfn|" + min
	o1, e1, p1 := yqx.Eval(min, doc, "yaml", "json")
	o2, e2, p2 := yqx.Eval(full, doc, "yaml", "json")
	res.Evals += 2
	if p1 != nil || p2 != nil {
		res.Verdict, res.Detail = mon.Violated, fmt.Sprintf("panic while evaluating `%s` / `%s`: %v %v", min, full, p1, p2)
		return res
	}
	if (e1 != nil) != (e2 != nil) || (e1 == nil && o1 != o2) {
		res.Verdict = mon.Violated
		res.Detail = fmt.Sprintf("`%s` and `%s` differ: the traversal after the bracket no longer binds to the argument as the precedence table says\n first:  %s (err=%v)\n second: %s (err=%v)", min, full, clipStr(o1, 300), e1, clipStr(o2, 300), e2)
		return res
	}
	res.Verdict, res.Detail = mon.Held, "same results"
	return res
}

func c09ArgCase(w *mon.Worker, r *rand.Rand) mon.Result {
	doc := "{\"s\": \"cat\", \"t\": \"banana\", \"a\": {\"x\": 0, \"y\": 0, \"z\": [1, 2]}, \"b\": {\"x\": 5}}\n"
	strs := []string{`"c"`, `"a"`, `"an"`, `"t"`, `"b"`, `"r"`, `""`, `"zz"`, `.s`, `.t`}
	upd := []string{".x = 1", ".y = 2", ".x += 1", ".z[0] = 9", ".y |= . + 3", ".w = \"n\"", "del(.x)", ".z += [3]"}
	pick := func(p []string) string { return p[r.IntN(len(p))] }
	var min, full, kind string
	switch r.IntN(4) {
	case 0, 1:
		kind = "sub"
		in := pick([]string{".s", ".t", `"cat"`, `(.s, .t)`})
		a, b, c := pick(strs[:8]), pick(strs[:8]), pick(strs[:8])
		min = fmt.Sprintf(`%s | sub(%s; %s, %s)`, in, a, b, c)
		full = fmt.Sprintf(`%s | sub(%s; (%s, %s))`, in, a, b, c)
		if r.IntN(3) == 0 {
			d := pick(strs[:8])
			min = fmt.Sprintf(`%s | sub(%s; %s, %s, %s)`, in, a, b, c, d)
			full = fmt.Sprintf(`%s | sub(%s; (%s, %s, %s))`, in, a, b, c, d)
		}
	case 2:
		kind = "with"
		p := pick([]string{".a", ".b", ".a, .b" /* bracketed below */})
		if p == ".a, .b" {
			p = "(.a, .b)"
		}
		u1, u2 := pick(upd), pick(upd)
		min = fmt.Sprintf(`with(%s; %s, %s)`, p, u1, u2)
		full = fmt.Sprintf(`with(%s; (%s, %s))`, p, u1, u2)
	default:
		kind = "sub-in-map"
		a, b, c := pick(strs[:8]), pick(strs[:8]), pick(strs[:8])
		min = fmt.Sprintf(`[.s, .t] | map(sub(%s; %s, %s))`, a, b, c)
		full = fmt.Sprintf(`[.s, .t] | map(sub(%s; (%s, %s)))`, a, b, c)
	}
	res := mon.Result{Tags: []string{"family:argument-separator", "argsep:" + kind}, Nontrivial: true}
	res.Case = map[string]any{"minimal": min, "full": full, "doc": doc}
	res.Sig = "argsep|" + min
	o1, e1, p1 := yqx.Eval(min, doc, "yaml", "json")
	o2, e2, p2 := yqx.Eval(full, doc, "yaml", "json")
	res.Evals += 2
	if p1 != nil || p2 != nil {
		res.Verdict, res.Detail = mon.Violated, fmt.Sprintf("panic while evaluating `%s` / `%s`: %v %v", min, full, p1, p2)
		return res
	}
	if (e1 != nil) != (e2 != nil) || (e1 == nil && o1 != o2) {
		res.Verdict = mon.Violated
		res.Detail = fmt.Sprintf("`%s` and `%s` differ: the union after `;` is not taken as the second argument\n first:  %s (err=%v)\n second: %s (err=%v)", min, full, clipStr(o1, 300), e1, clipStr(o2, 300), e2)
		return res
	}
	res.Verdict, res.Detail = mon.Held, "same results"
	return res
}

// c09UnionChainCase: a chain of one associative operator means the same in every grouping. Union chains whose operands
// mention the context itself (`.`) or a variable more than once are the ones where an implementation that re-uses a
// result list instead of copying it shows: `(., .a), .` ≡ `., (.a, .)` ≡ `., .a, .`.
func c09UnionChainCase(w *mon.Worker, r *rand.Rand) mon.Result {
	doc := "{\"a\": 1, \"b\": [2, 3], \"c\": {\"d\": 4}}\n"
	ops := []string{".", ".a", ".b", ".c.d", "$x", ".", "$x", ".b[0]", "1"}
	n := 3 + r.IntN(2)
	xs := make([]string, n)
	for i := range xs {
		xs[i] = ops[r.IntN(len(ops))]
		for i > 0 && xs[i] == xs[i-1] {
			// (two adjacent mentions of the very same node in one bracket collapse into one: the recorded `(., .)`
			// deviation of C01, kept out of this family)
			xs[i] = ops[r.IntN(len(ops))]
		}
	}
	flat := "(" + strings.Join(xs, ", ") + ")"
	left := "(" + xs[0] + ", " + xs[1] + ")"
	for _, x := range xs[2:] {
		left = "(" + left + ", " + x + ")"
	}
	right := "(" + xs[n-2] + ", " + xs[n-1] + ")"
	for i := n - 3; i >= 0; i-- {
		right = "(" + xs[i] + ", " + right + ")"
	}
	wrap := []string{".c as $x | [%s]", ".a as $x | %s | tag", ".c as $x | [%s] | length", ".b as $x | [%s | kind]"}[r.IntN(4)]
	res := mon.Result{Tags: []string{"family:union-chain"}, Nontrivial: true}
	exprs := []string{fmt.Sprintf(wrap, flat), fmt.Sprintf(wrap, left), fmt.Sprintf(wrap, right)}
	res.Case = map[string]any{"flat": exprs[0], "left_grouped": exprs[1], "right_grouped": exprs[2], "doc": doc}
	res.Sig = "unionchain|" + exprs[0]
	var outs []string
	for _, e := range exprs {
		o, err, pan := yqx.Eval(e, doc, "yaml", "json")
		res.Evals++
		if pan != nil {
			res.Verdict, res.Detail = mon.Violated, fmt.Sprintf("panic while evaluating `%s`: %v", e, pan)
			return res
		}
		if err != nil {
			o = "error"
		}
		outs = append(outs, o)
	}
	if outs[0] != outs[1] || outs[0] != outs[2] {
		res.Verdict = mon.Violated
		res.Detail = fmt.Sprintf("the groupings of one union chain differ\n `%s` -> %s\n `%s` -> %s\n `%s` -> %s", exprs[0], clipStr(outs[0], 300), exprs[1], clipStr(outs[1], 300), exprs[2], clipStr(outs[2], 300))
		return res
	}
	res.Verdict, res.Detail = mon.Held, "same results in every grouping"
	return res
}
