package props

import (
	"fmt"
	"math/rand/v2"
	"strings"

	"verifharness/gen"
	"verifharness/mon"
	"verifharness/ref"
	"verifharness/yqx"
)

// C08 — conditions, keys and operands are evaluated read-only.
//
// Oracle (metamorphic): for an assignment-free expression E placed in each position the property
// names, the document printed after evaluating E must be byte-identical to what `.` prints.
type c08 struct{}

func init() { mon.Register(c08{}) }

func (c08) ID() string    { return "C08" }
func (c08) Level() string { return "exploration" }
func (c08) Rule() string {
	return "case = (document, assignment-free expression E from the core-fragment generator extended with ~40 read-only operators, placement template). Templates: " +
		"`(E) as $x | .`; `select([E] | length > -1)`; `select(E)`/`select((E) or true)`; any_c/all_c(E) and sort_by/group_by/unique_by(E) on sequence documents; has/contains/pick argument; " +
		"both operands of + - * / % == != < <= > >= and or // in a writable context (`((E1 OP E2) | select(false)), .`). " +
		"Every 21st case: records family (c08_records.go): documents of sequences of maps over one key set written in differing key orders (nested too), single maps and sequences of sequences derived from them; E = array subtraction trees / contains / unique / group_by / sort / pick / omit / + / * / == over them; besides the unchanged document the value of a subtraction must equal a model of the records (key order of what stays included). " +
		"Compared: YAML bytes and JSON value of the printed document against `yq .` on the same input. Errors in E end the case (nothing compared). " +
		"Non-trivial = E evaluated without error and contains >=1 traversal or function; distinct by (template, expression skeleton, document shape)."
}
func (c08) Assumptions() []string {
	return []string{
		"in-place operators are excluded from E by the property's own wording: assignment family, del, explode, sort_keys, map_values, with, setpath/delpaths, style/tag/anchor/comment setters",
		"documents are JSON-model values handed over as flow-style YAML; the printed document is compared byte for byte, so a style-only mutation is visible too",
	}
}
func (c08) Cases(tier string) int {
	if tier == "thorough" {
		return 250000
	}
	return 45000
}
func (c08) RaceCases(tier string) int {
	if tier == "thorough" {
		return 6000
	}
	return 300
}
func (c08) Floor(tier string) int { return 2500 }

var c08Extra = []string{
	"sort", "sort_by(.a)", "sort_by(.[0])", "unique", "unique_by(.a)", "group_by(.a)", "flatten", "flatten(1)", "reverse", "to_entries", "with_entries(.)",
	"keys", "length", "kind", "tag", "type", "path", "parent", "key", "line", "column", "to_json", "to_yaml", "@json", "to_props", "to_string", "to_number",
	"min", "max", "any", "all", "pivot", "map(.)", "map(select(. != null))", "filter(. != 1)", "pick([\"a\"])", "omit([\"a\"])", "pick([0])", "has(\"a\")", "has(0)",
	"contains([1])", "contains({\"a\": 1})", "join(\",\")", "split(\",\")", "trim", "upcase", "test(\"a\")", "sub(\"a\"; \"b\")", "[.[] | select(. == 1)]", "..",
	"... | select(. == \"a\")", ".[]", ".[0]", ".[-1]", ".[1:]", ".[:1]", ".a", ".b", ".a.b", ".a[0]", ".a[]", ".x.y.z", ".[5]", ".a[7]", ".b[\"q\"]", ".[\"a\", \"zz\"]",
	"shuffle | length", "array_to_map", "document_index", "filename", "splitDoc", "to_unix", "collect", "anchor", "alias", "style", "head_comment",
	"[.. | path]", "[.. | parent]", ".[] as $i | $i", ". as $d | $d.a", "with_entries(select(.key != \"a\"))", "to_entries | from_entries", ".a // .b", ".zz // \"d\"",
	"., .a", "(., .a) | length", "(., .b) | kind", ".a | (., .b)", "(., 1) | tag", "., .[0]", "(., .x) | select(. == 1)",
	".a == 1", ".qq == null", ".a[3] == 1", ".[9] != 2", ".a < 2", ".a + 1", ".a + .b", ".a * .b", ".a - [1]", ".b / \",\"", ".a % 2", ".a and .b", ".qq or .a", "not",
}

func c08Expr(r *rand.Rand, doc *ref.V) string {
	g := gen.NewExprGen(r)
	g.IllTyped = 25
	switch r.IntN(10) {
	case 0, 1, 2:
		return g.Gen([]*ref.V{doc}, 1+r.IntN(4)).String()
	case 3, 4, 5, 6:
		n := 1 + r.IntN(3)
		parts := make([]string, n)
		for i := range parts {
			parts[i] = c08Extra[r.IntN(len(c08Extra))]
		}
		return strings.Join(parts, " | ")
	case 7:
		return "(" + g.Gen([]*ref.V{doc}, 1+r.IntN(3)).String() + ") | " + c08Extra[r.IntN(len(c08Extra))]
	default:
		return "(" + c08Extra[r.IntN(len(c08Extra))] + "), (" + c08Extra[r.IntN(len(c08Extra))] + ")"
	}
}

var c08BinOps = []string{"+", "-", "*", "/", "%", "==", "!=", "<", "<=", ">", ">=", "and", "or", "//"}

type c08Tpl struct {
	name string
	seq  bool // needs a sequence document
	mk   func(r *rand.Rand, e, e2 string) string
}

var c08Tpls = []c08Tpl{
	// [E] so that a multi-result E does not loop the body (variables loop once per result)
	{"as", false, func(r *rand.Rand, e, e2 string) string { return "[" + e + "] as $x | ." }},
	{"as-raw", false, func(r *rand.Rand, e, e2 string) string { return "(" + e + ") as $x | ." }},
	{"select-collect", false, func(r *rand.Rand, e, e2 string) string { return "select([" + e + "] | length > -1)" }},
	{"select", false, func(r *rand.Rand, e, e2 string) string { return "select((" + e + ") or true)" }},
	{"select-raw", false, func(r *rand.Rand, e, e2 string) string { return "select(" + e + ")" }},
	{"any_c", true, func(r *rand.Rand, e, e2 string) string { return "(any_c(" + e + ") | select(false)), ." }},
	{"all_c", true, func(r *rand.Rand, e, e2 string) string { return "(all_c(" + e + ") | select(false)), ." }},
	{"sort_by", true, func(r *rand.Rand, e, e2 string) string { return "(sort_by(" + e + ") | select(false)), ." }},
	{"group_by", true, func(r *rand.Rand, e, e2 string) string { return "(group_by(" + e + ") | select(false)), ." }},
	{"unique_by", true, func(r *rand.Rand, e, e2 string) string { return "(unique_by(" + e + ") | select(false)), ." }},
	{"has", false, func(r *rand.Rand, e, e2 string) string { return "(has(" + e + ") | select(false)), ." }},
	{"contains", false, func(r *rand.Rand, e, e2 string) string { return "(contains(" + e + ") | select(false)), ." }},
	{"pick", false, func(r *rand.Rand, e, e2 string) string { return "(pick([" + e + "]) | select(false)), ." }},
	{"binop", false, func(r *rand.Rand, e, e2 string) string {
		return "(((" + e + ") " + c08BinOps[r.IntN(len(c08BinOps))] + " (" + e2 + ")) | select(false)), ."
	}},
	{"map-select", true, func(r *rand.Rand, e, e2 string) string { return "(map(select(" + e + ")) | select(false)), ." }},
	{"filter", true, func(r *rand.Rand, e, e2 string) string { return "(filter(" + e + ") | select(false)), ." }},
}

func (p c08) Run(w *mon.Worker, idx int) mon.Result {
	r := w.Rand(idx)
	if idx%21 == 4 {
		return c08RecordsCase(w, r)
	}
	if idx%8 == 5 {
		return c08AnchorCase(w, r)
	}
	pr := gen.Default()
	pr.NoBigInt, pr.SmallInts = true, true
	pr.MaxDepth = 2 + r.IntN(3)
	pr.MaxWidth = 2 + r.IntN(4)
	pr.Keys = []string{"a", "b", "c", "x", "y"}
	if r.IntN(2) == 0 {
		pr.PlainStr = true
	}
	t := c08Tpls[idx%len(c08Tpls)]
	var doc *ref.V
	for try := 0; try < 30; try++ {
		doc = gen.Value(r, pr)
		if !t.seq || (doc.K == ref.Seq && len(doc.A) > 0) {
			break
		}
	}
	if t.seq && doc.K != ref.Seq {
		doc = ref.SeqV(doc, ref.MapV(ref.KV{K: "a", V: ref.IntV(1)}), ref.NullV())
	}
	sample := doc
	if t.seq && len(doc.A) > 0 {
		sample = doc.A[0]
	}
	e := c08Expr(r, sample)
	e2 := c08Expr(r, sample)
	expr := t.mk(r, e, e2)
	docText := doc.JSON() + "\n"
	res := mon.Result{Tags: []string{"tpl:" + t.name}, Case: map[string]any{"doc": docText, "expr": expr}}
	res.Sig = fmt.Sprintf("%s|%x|%x", t.name, hashStr(skeleton(e)), doc.ShapeHash())

	base, berr, bpan := yqx.Eval(".", docText, "yaml", "yaml")
	if berr != nil || bpan != nil {
		res.Verdict, res.Detail = mon.Inconclusive, fmt.Sprintf("identity failed: %v %v", berr, bpan)
		return res
	}
	out, err, pan := yqx.Eval(expr, docText, "yaml", "yaml")
	res.Evals += 2
	if pan != nil || err != nil {
		res.Verdict = mon.Held
		res.Tags = append(res.Tags, "e_failed")
		res.Detail = "E is not defined here (error): nothing to compare"
		return res
	}
	if out == "" && (t.name == "select" || t.name == "select-raw" || t.name == "select-collect") {
		// select may legitimately drop the document; then the second evaluation checks the document itself
		out2, err2, pan2 := yqx.Eval("(select("+e+") | select(false)), .", docText, "yaml", "yaml")
		res.Evals++
		if err2 != nil || pan2 != nil {
			res.Verdict, res.Detail = mon.Held, "E failed"
			res.Tags = append(res.Tags, "e_failed")
			return res
		}
		out = out2
		res.Tags = append(res.Tags, "select_dropped")
	}
	res.Nontrivial = strings.ContainsAny(e, ".[(") && len(e) > 1
	if t.name == "as-raw" {
		// the body runs once per result of E: the document is printed that many times (and nothing else)
		// (counted in the same kind of context: the left side of `as` is read-only, where a missing key yields no result)
		cnt, cerr, cpan := yqx.Eval("(["+e+"] | length) as $n | $n", docText, "yaml", "json")
		res.Evals++
		n := 0
		if cerr != nil || cpan != nil {
			res.Verdict, res.Detail = mon.Held, "E failed"
			res.Tags = append(res.Tags, "e_failed")
			return res
		}
		fmt.Sscanf(strings.TrimSpace(cnt), "%d", &n)
		if out == strings.Repeat(base, n) {
			res.Verdict, res.Detail = mon.Held, fmt.Sprintf("document printed %d times, unchanged", n)
			return res
		}
		if n > 0 && strings.Count(out, base) == n && len(out) == n*len(base) {
			res.Verdict, res.Detail = mon.Held, "document unchanged"
			return res
		}
	}
	if out == base {
		res.Verdict = mon.Held
		res.Detail = "document unchanged"
		return res
	}
	// changed: describe the difference on the data level
	detail := fmt.Sprintf("evaluating `%s` changed the document\n before: %s after:  %s", expr, clipStr(base, 500), clipStr(out, 500))
	before, e1 := ref.ParseJSON(strings.TrimSpace(docText))
	afterText, e2x, _ := yqx.Eval(expr, docText, "yaml", "json")
	if e1 == nil && e2x == nil {
		if after, e3 := ref.ParseJSONStream(afterText); e3 == nil && len(after) == 1 {
			if onlyVivification(before, after[0]) && writableTraversal(t.name) {
				res.Verdict, res.FindingID = mon.Finding, "C08-read-traversal-vivifies-in-writable-context"
				res.Detail = detail
				return res
			}
		}
	}
	res.Verdict = mon.Violated
	res.Detail = detail
	return res
}

// templates whose E (or operands) run in a writable context on this tree
func writableTraversal(tpl string) bool {
	switch tpl {
	case "binop", "has", "contains", "pick":
		return true
	}
	return false
}

// onlyVivification: after differs from before only by artefacts of auto-creation: added keys whose
// value is null (or containers built only from such), nulls turned into empty/auto-created
// containers, and null padding appended to sequences.
func onlyVivification(before, after *ref.V) bool {
	if ref.EqualNum(before, after) {
		return true
	}
	if before.K == ref.Null {
		return vivOnly(after)
	}
	if before.K != after.K {
		return false
	}
	switch before.K {
	case ref.Map:
		bi := 0
		for _, kv := range after.M {
			if bi < len(before.M) && before.M[bi].K == kv.K {
				if !onlyVivification(before.M[bi].V, kv.V) {
					return false
				}
				bi++
				continue
			}
			if _, existed := before.Get(kv.K); existed {
				return false // reordered
			}
			if !vivOnly(kv.V) {
				return false
			}
		}
		return bi == len(before.M)
	case ref.Seq:
		if len(after.A) < len(before.A) {
			return false
		}
		for i := range before.A {
			if !onlyVivification(before.A[i], after.A[i]) {
				return false
			}
		}
		for _, x := range after.A[len(before.A):] {
			if !vivOnly(x) {
				return false
			}
		}
		return true
	}
	return false
}

func vivOnly(v *ref.V) bool {
	switch v.K {
	case ref.Null:
		return true
	case ref.Map:
		for _, kv := range v.M {
			if !vivOnly(kv.V) {
				return false
			}
		}
		return true
	case ref.Seq:
		for _, x := range v.A {
			if !vivOnly(x) {
				return false
			}
		}
		return true
	}
	return false
}
