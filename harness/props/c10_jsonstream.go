package props

import (
	"fmt"
	"os"
	"path/filepath"
	"strings"

	"verifharness/mon"
	"verifharness/ref"
)

// Family O7 of C10: JSON streams (several values per file, NDJSON) in sequence mode. The JSON decoder does not number
// its documents itself, so whoever drives it has to: N values in give N documents out (YAML output shows the
// separators), in order, each reporting its true (document_index, file_index), and eval-all agrees on the identity.
func c10JSONStream(w *mon.Worker, idx int) mon.Result {
	r := w.Rand(idx)
	res := mon.Result{Tags: []string{"family:O7-jsonstream"}}
	dir := filepath.Join(w.Scratch, fmt.Sprintf("c10js-%d", idx))
	_ = os.MkdirAll(dir, 0o755)
	defer os.RemoveAll(dir)
	nf := 1 + r.IntN(3)
	var names []string
	var want []*ref.V
	var rows [][2]int
	var texts []string
	for fi := 0; fi < nf; fi++ {
		nd := 1 + r.IntN(4)
		var sb strings.Builder
		for di := 0; di < nd; di++ {
			v := c10MapDoc(r, 1)
			v.M = append(v.M, ref.KV{K: "zz_id", V: ref.IntV(int64(fi*10 + di))})
			want = append(want, v)
			rows = append(rows, [2]int{di, fi})
			sb.WriteString(v.JSON())
			sb.WriteString([]string{"\n", "\n\n", " ", "\n"}[r.IntN(4)])
		}
		n := filepath.Join(dir, fmt.Sprintf("s%d.%s", fi, []string{"json", "json", "ndjson"}[r.IntN(3)]))
		_ = os.WriteFile(n, []byte(sb.String()), 0o644)
		names = append(names, n)
		texts = append(texts, sb.String())
	}
	res.Case = map[string]any{"files": texts, "family": "O7-jsonstream"}
	res.Sig = fmt.Sprintf("jsonstream|%x", hashStr(strings.Join(texts, "\x00")))
	res.Nontrivial = len(want) >= 2
	run := func(args ...string) (mon.ExecResult, bool) {
		x := mon.Run(mon.RunOpts{Dir: dir}, append([]string{w.YqBin()}, args...)...)
		res.Evals++
		return x, !x.TimedOut && x.Exit != -2 && x.Signal == 0
	}
	fail := func(f string, a ...any) mon.Result {
		res.Verdict, res.Detail = mon.Violated, fmt.Sprintf(f, a...)+fmt.Sprintf("\nfiles: %q", texts)
		return res
	}
	// (a) YAML out: N documents, separated, in order
	y, ok := run(append([]string{"-p=json", "-o=yaml", "."}, names...)...)
	if !ok {
		res.Verdict, res.Detail = mon.Inconclusive, "binary not run"
		return res
	}
	if y.Exit != 0 {
		return fail("yq -p=json -o=yaml . failed: %s", clipStr(string(y.Stderr), 300))
	}
	segs := strings.Split("\n"+string(y.Stdout), "\n---\n")
	if len(segs) != len(want) {
		return fail("%d JSON values in, %d YAML documents out\n%s", len(want), len(segs), clipStr(string(y.Stdout), 800))
	}
	// (b) the values themselves, through JSON output
	j, ok := run(append([]string{"-p=json", "-o=json", "-I0", "."}, names...)...)
	if !ok || j.Exit != 0 {
		return fail("yq -p=json -o=json . failed: %s", clipStr(string(j.Stderr), 300))
	}
	got, perr := ref.ParseJSONStream(string(j.Stdout))
	if perr != nil || len(got) != len(want) {
		return fail("%d values in, output holds %d (%v)", len(want), len(got), perr)
	}
	for i := range got {
		if !ref.EqualNum(got[i], want[i]) {
			return fail("value #%d comes out as %s, it went in as %s", i, clipStr(got[i].JSON(), 200), clipStr(want[i].JSON(), 200))
		}
	}
	// (c) positions
	p, ok := run(append([]string{"-p=json", "-o=json", "-I0", "[document_index, file_index, .zz_id]"}, names...)...)
	if !ok || p.Exit != 0 {
		return fail("index query failed: %s", clipStr(string(p.Stderr), 300))
	}
	prow, perr := ref.ParseJSONStream(string(p.Stdout))
	if perr != nil || len(prow) != len(rows) {
		return fail("index query printed %d rows for %d documents: %s", len(prow), len(rows), clipStr(string(p.Stdout), 300))
	}
	for i, rw := range prow {
		if rw.K != ref.Seq || len(rw.A) != 3 || rw.A[0].K != ref.Int || rw.A[1].K != ref.Int || int(rw.A[0].I.Int64()) != rows[i][0] || int(rw.A[1].I.Int64()) != rows[i][1] {
			return fail("document #%d (value %d of file %d) reports [document_index, file_index, id] = %s", i, rows[i][0], rows[i][1], rw.JSON())
		}
	}
	// (d) eval-all agrees on the identity
	a, ok := run(append([]string{"ea", "-p=json", "-o=yaml", "."}, names...)...)
	if ok && (a.Exit != 0 || string(a.Stdout) != string(y.Stdout)) {
		return fail("eval and eval-all disagree on the identity over a JSON stream\n--- eval\n%s--- eval-all\n%s", clipStr(string(y.Stdout), 600), clipStr(string(a.Stdout), 600))
	}
	res.Verdict, res.Detail = mon.Held, fmt.Sprintf("%d values in %d files: all out, in order, with their positions", len(want), nf)
	return res
}
