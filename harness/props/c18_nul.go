package props

import (
	"bytes"
	"fmt"

	"github.com/mikefarah/yq/v4/pkg/yqlib"

	"verifharness/mon"
)

// c18NulPrinter: one printer with NUL separated output serves a sequence of evaluations, some of which it has to
// refuse (a value that contains a NUL, a value the encoder cannot write). What it prints for each of the others is what
// a printer of its own prints for it: a refused result leaves nothing behind.
func c18NulPrinter(w *mon.Worker, idx int) mon.Result {
	r := w.Rand(idx)
	res := mon.Result{Tags: []string{"family:nul-printer"}, Nontrivial: true}
	outName := []string{"yaml", "props", "csv", "tsv", "json"}[r.IntN(5)]
	good := []string{`"plain"`, `"two words"`, `1`, `[1, 2]`, `{"a": "b"}`, `"x", "y"`, `"é"`, `""`, `[["p", "q"]]`}
	// (a NUL character comes out of the base64 decoder: "AA==" is the byte 0)
	bad := []string{`"nul" + ("AA==" | @base64d) + "inside"`, `"AA==" | @base64d`, `"a", ("YgBj" | @base64d)`, `{"k": {"deep": 1}} | .k.deep.x`, `error("stop")`, `"first", ("AA==" | @base64d), "third"`}
	n := 5 + r.IntN(5)
	var steps []string
	for i := 0; i < n; i++ {
		if i > 0 && r.IntN(3) == 0 {
			steps = append(steps, bad[r.IntN(len(bad))])
		} else {
			steps = append(steps, good[r.IntN(len(good))])
		}
	}
	res.Case = map[string]any{"out": outName, "steps": steps, "family": "nul-printer"}
	res.Sig = fmt.Sprintf("nulprinter|%s|%v", outName, steps)
	mk := func() (yqlib.Printer, *bytes.Buffer, error) {
		f, err := yqlib.FormatFromString(outName)
		if err != nil {
			return nil, nil, err
		}
		enc := f.EncoderFactory()
		if enc == nil {
			return nil, nil, fmt.Errorf("no encoder for %s", outName)
		}
		buf := new(bytes.Buffer)
		p := yqlib.NewPrinter(enc, yqlib.NewSinglePrinterWriter(buf))
		p.SetNulSepOutput(true)
		return p, buf, nil
	}
	run := func(p yqlib.Printer, expr string) (err error, pan any) {
		defer func() { pan = recover() }()
		return yqlib.NewStreamEvaluator().EvaluateNew(expr, p), nil
	}
	shared, sbuf, err := mk()
	if err != nil {
		res.Verdict, res.Detail = mon.Inconclusive, err.Error()
		return res
	}
	for i, ex := range steps {
		sbuf.Reset()
		e1, p1 := run(shared, ex)
		got := sbuf.String()
		own, obuf, _ := mk()
		e2, p2 := run(own, ex)
		want := obuf.String()
		res.Evals += 2
		if p1 != nil || p2 != nil {
			res.Verdict, res.Detail = mon.Violated, fmt.Sprintf("panic while printing step %d `%s`: %v %v", i, ex, p1, p2)
			return res
		}
		if (e1 == nil) != (e2 == nil) || got != want {
			res.Verdict = mon.Violated
			res.Detail = fmt.Sprintf("step %d `%s` (-o=%s, NUL separated): the printer that served steps 0..%d prints %q (err %v), a printer of its own prints %q (err %v)\n steps: %q", i, ex, outName, i-1, clipStr(got, 200), e1, clipStr(want, 200), e2, steps)
			return res
		}
	}
	res.Verdict, res.Detail = mon.Held, fmt.Sprintf("%d steps, every one printed as by a printer of its own", n)
	return res
}
