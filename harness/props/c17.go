package props

import (
	"bytes"
	"fmt"
	"math/rand/v2"
	"os"
	"path/filepath"
	"regexp"
	"strings"
	"unicode/utf8"

	"verifharness/gen"
	"verifharness/mon"
	"verifharness/ref"
	"verifharness/yqx"
)

// C17 — @sh and -o=shell output is injection-safe and expands to the exact value.
//
// Oracle: a REAL consumer. The text yq produced is handed to /bin/dash and /bin/bash; the
// shell must see exactly one word / exactly the generated variables, expand them to exactly
// the generator's strings, execute nothing (strace: no execve besides the shell's own; canary
// file never created). An independent POSIX word parser also checks the output's shape.
type c17 struct{}

func init() { mon.Register(c17{}) }

func (c17) ID() string    { return "C17" }
func (c17) Level() string { return "exploration" }
func (c17) Rule() string {
	return "even cases: 8 hostile strings -> `.v | @sh` (in-process and real binary) -> `set -- WORD` in dash and bash must give $#=1 and $1==s; " +
		"odd cases: nested map/seq with hostile keys and values -> `yq -o=shell` (real binary) -> parsed by an independent POSIX word parser " +
		"(NAME regex, quoting, leaf count/order) and sourced by dash and bash under env -i, every variable must expand to the leaf text. " +
		"A quarter of the cases run the shell under strace -f -e trace=execve,execveat. Non-trivial = at least one string needing quoting; distinct by hash of the strings."
}
func (c17) Assumptions() []string {
	return []string{
		"/bin/dash and /bin/bash are correct POSIX shells",
		"strings are NUL-free valid UTF-8 (YAML cannot carry anything else)",
		"variable names the shell itself treats specially (_ IFS PATH PWD OLDPWD PPID UID EUID OPTIND LINENO RANDOM SECONDS PS1-4 ENV HOME BASH* SHELLOPTS …) are a property of the consumer: cases whose normalised names hit them are checked syntactically only",
	}
}
func (c17) Cases(tier string) int {
	if tier == "thorough" {
		return 40000
	}
	return 2400
}
func (c17) RaceCases(tier string) int { return 100 }
func (c17) Floor(tier string) int     { return 500 }

var shHostile = []string{
	"", " ", "'", "''", "'''", "\\", "\\'", "'\\''", "a'b", "'a", "a'", "\"", "$", "$x", "${x}", "$(: > CANARY)", "`: > CANARY`", "; : > CANARY;",
	"$(echo x>CANARY)", "a;b", "a|b", "a&b", "a&&b", "a>CANARY", "<CANARY", "*", "?", "[a-z]", "~", "~root", "#c", "a #c", "!", "!!", "{a,b}", "a b", "a  b",
	"a\tb", "a\nb", "\n", "\r", "a\rb", "-n", "-e", "--", "-", "=", "a=b", "%s", "%", "\\n", "\\0", "\\\\", "$'\\n'", "é", "日本", "😀", "\x01", "\x1b[31m", "\x7f",
	"a'b'c'd", "'$(: > CANARY)'", "'`: > CANARY`'", "\"$(: > CANARY)\"", "x' ; : > CANARY ; '", "x'\n: > CANARY\n'", "$IFS", "a$IFS'b", "'\"'\"'", "@", "a@b", "+", ",", ".", "/", ":", "a:b",
	// tilde behind `:` / `=` (expanded in assignments), doubled double quotes next to a single quote
	"/usr/local/bin:~/bin", "x:~", "opt=~/x", "it's:~", "a=~", ":~root", "~", "~/x", "it's an empty \"\" string", "'\"\"'", "\"\"'", "a'\"\"\"\"b",
	"^", "a^b", "(", ")", "()", "<(x)", " ", " ", "a\u0085b", "]", "[", "{", "}", "a\\", "\\ ", " '", "' ", "'\n'", "$$", "$?", "$0", "$@", "$*",
}

func c17Str(r *rand.Rand) string {
	switch r.IntN(10) {
	case 0, 1, 2, 3:
		return shHostile[r.IntN(len(shHostile))]
	case 4, 5:
		// a single byte 1..255 alone or next to a quote (as a Latin-1 -> rune, so the text stays valid UTF-8)
		c := rune(1 + r.IntN(255))
		if r.IntN(5) == 0 {
			// boundary code points: the replacement character (what decoders hand out for invalid bytes), ends of the
			// surrogate gap, last BMP / first astral / last code point, BOM, NEL, line and paragraph separator
			c = []rune{0xFFFD, 0xD7FF, 0xE000, 0xFFFC, 0x10000, 0x10FFFD, 0xFEFF, 0x85, 0x2028, 0x2029, 0x7FF, 0x800}[r.IntN(12)]
		}
		switch r.IntN(4) {
		case 0:
			return string(c)
		case 1:
			return "'" + string(c)
		case 2:
			return string(c) + "'"
		default:
			return "a" + string(c) + "'" + string(c) + "b"
		}
	case 6, 7:
		// concatenation of hostile fragments
		n := 2 + r.IntN(4)
		var sb strings.Builder
		for i := 0; i < n; i++ {
			sb.WriteString(shHostile[r.IntN(len(shHostile))])
		}
		return sb.String()
	default:
		n := r.IntN(20)
		var sb strings.Builder
		for i := 0; i < n; i++ {
			sb.WriteRune(gen.Rune(r))
		}
		return sb.String()
	}
}

var shRawRe = regexp.MustCompile(`"\\u0000RAW(?:[^"\\]|\\.)*\\u0000"`)
var shSafeOnly = regexp.MustCompile(`^[A-Za-z0-9_]*$`)
var shNameRe = regexp.MustCompile(`^[A-Za-z_][A-Za-z0-9_]*$`)

var shSpecial = map[string]bool{"_": true, "IFS": true, "PATH": true, "PWD": true, "OLDPWD": true, "PPID": true, "UID": true, "EUID": true,
	"OPTIND": true, "OPTARG": true, "LINENO": true, "RANDOM": true, "SECONDS": true, "PS1": true, "PS2": true, "PS3": true, "PS4": true, "ENV": true,
	"HOME": true, "SHELLOPTS": true, "SHELL": true, "SHLVL": true, "HOSTNAME": true, "HOSTTYPE": true, "MACHTYPE": true, "OSTYPE": true, "GROUPS": true,
	"FUNCNAME": true, "DIRSTACK": true, "PIPESTATUS": true, "REPLY": true, "MAIL": true, "MAILPATH": true, "MAILCHECK": true, "CDPATH": true, "TMOUT": true,
	"HISTFILE": true, "HISTSIZE": true, "HISTCMD": true, "IGNOREEOF": true, "LANG": true, "TERM": true, "COLUMNS": true, "LINES": true, "COMP_WORDBREAKS": true,
	"EPOCHSECONDS": true, "EPOCHREALTIME": true, "SRANDOM": true, "POSIXLY_CORRECT": true, "GLOBIGNORE": true, "NLSPATH": true, "TZ": true, "PROMPT_COMMAND": true,
	"INPUTRC": true, "FCEDIT": true, "FIGNORE": true, "EXECIGNORE": true, "TIMEFORMAT": true, "TMPDIR": true, "auto_resume": true, "histchars": true, "COPROC": true, "MAPFILE": true, "READLINE_LINE": true}

func shIsSpecial(n string) bool {
	return shSpecial[n] || strings.HasPrefix(n, "BASH") || strings.HasPrefix(n, "LC_") || strings.HasPrefix(n, "COMP_") || strings.HasPrefix(n, "READLINE_") || strings.HasPrefix(n, "HIST")
}

type shRun struct {
	out      []byte
	exit     int
	execves  int // execve calls seen by strace (-1 when not traced)
	timedOut bool
	stderr   string
}

// runShell runs script with the given shell in dir; PATH is an empty directory so nothing can be found by name.
func runShell(w *mon.Worker, shell, dir, script string, traced bool) shRun {
	empty := filepath.Join(dir, "emptypath")
	_ = os.MkdirAll(empty, 0o755)
	env := []string{"PATH=" + empty}
	if !traced {
		res := mon.Run(mon.RunOpts{Dir: dir, Env: env}, shell, "-c", script)
		return shRun{out: res.Stdout, exit: res.Exit, execves: -1, timedOut: res.TimedOut, stderr: string(res.Stderr)}
	}
	logf := filepath.Join(dir, "strace.log")
	_ = os.Remove(logf)
	res := mon.Run(mon.RunOpts{Dir: dir, Env: env, Wall: 0}, "/usr/bin/strace", "-f", "-qq", "-o", logf, "-e", "trace=execve,execveat", shell, "-c", script)
	n := 0
	if b, err := os.ReadFile(logf); err == nil {
		for _, ln := range strings.Split(string(b), "\n") {
			if strings.Contains(ln, "execve(") || strings.Contains(ln, "execveat(") {
				n++
			}
		}
	} else {
		n = -1
	}
	return shRun{out: res.Stdout, exit: res.Exit, execves: n, timedOut: res.TimedOut, stderr: string(res.Stderr)}
}

func (p c17) Run(w *mon.Worker, idx int) mon.Result {
	r := w.Rand(idx)
	dir := filepath.Join(w.Scratch, fmt.Sprintf("c17-%d", idx))
	_ = os.MkdirAll(dir, 0o755)
	defer os.RemoveAll(dir)
	traced := idx%4 == 0
	if idx%2 == 0 {
		return p.runAtSh(w, r, dir, traced)
	}
	return p.runShellVars(w, r, dir, traced)
}

// ---- @sh -------------------------------------------------------------------------------

func (p c17) runAtSh(w *mon.Worker, r *rand.Rand, dir string, traced bool) mon.Result {
	const n = 8
	strs := make([]string, n)
	words := make([]string, n)
	res := mon.Result{Tags: []string{"mode:@sh"}}
	nontrivial := false
	off := 0 // index of the first string in the document's root list
	var docsb strings.Builder
	for i := range strs {
		strs[i] = c17Str(r)
		if !shSafeOnly.MatchString(strs[i]) || strs[i] == "" {
			nontrivial = true
		}
		fmt.Fprintf(&docsb, "- %s\n", ref.QuoteJSON(strs[i]))
	}
	doc := docsb.String()
	if r.IntN(3) == 0 {
		// the same strings reached through YAML aliases: `d` holds the anchored spellings, the items are `*sN`
		var db, vb strings.Builder
		db.WriteString("d:\n")
		for i := range strs {
			if r.IntN(3) != 0 {
				fmt.Fprintf(&db, "  - &s%d %s\n", i, ref.QuoteJSON(strs[i]))
				fmt.Fprintf(&vb, "- *s%d\n", i)
			} else {
				fmt.Fprintf(&vb, "- %s\n", ref.QuoteJSON(strs[i]))
			}
		}
		// one document whose root is the list, the anchors live in its first item
		doc = "- " + strings.ReplaceAll(strings.TrimSuffix(db.String(), "\n"), "\n", "\n  ") + "\n" + vb.String()
		res.Tags = append(res.Tags, "alias_items")
		off = 1
	}
	res.Case = map[string]any{"strings": strs}
	res.Sig = fmt.Sprintf("sh|%x", hashStr(strings.Join(strs, "\x00")))
	res.Nontrivial = nontrivial
	for i := range strs {
		out, err, pan := yqx.Eval(fmt.Sprintf(".[%d] | @sh", i+off), doc, "yaml", "yaml")
		res.Evals++
		if pan != nil || err != nil {
			res.Verdict = mon.Violated
			res.Detail = fmt.Sprintf("@sh of %q failed: err=%v panic=%v", strs[i], err, pan)
			return res
		}
		words[i] = strings.TrimSuffix(out, "\n")
	}
	// all strings through ONE @sh operator call: each word is what the string gets on its own
	if allOut, aerr, apan := yqx.Eval(fmt.Sprintf("[.[%d:][] | @sh]", off), doc, "yaml", "json"); aerr != nil || apan != nil {
		res.Verdict, res.Detail = mon.Violated, fmt.Sprintf("`[.[] | @sh]` failed: err=%v panic=%v", aerr, apan)
		return res
	} else if vs, perr := ref.ParseJSONStream(allOut); perr != nil || len(vs) != 1 || vs[0].K != ref.Seq || len(vs[0].A) != n {
		res.Verdict, res.Detail = mon.Violated, fmt.Sprintf("`[.[] | @sh]` printed %q", clipStr(allOut, 300))
		return res
	} else {
		res.Evals++
		for i, v := range vs[0].A {
			if v.K != ref.Str || v.S != words[i] {
				res.Verdict = mon.Violated
				res.Detail = fmt.Sprintf("@sh depends on what it encoded before: string #%d %q gives %q on its own but %q as part of `.[] | @sh` over %q", i, strs[i], words[i], v.S, strs)
				return res
			}
		}
	}
	// the real binary must agree with the in-process answer (first string, sampled)
	if r.IntN(4) == 0 {
		docf := filepath.Join(dir, "in.yaml")
		_ = os.WriteFile(docf, []byte(doc), 0o644)
		br := mon.Run(mon.RunOpts{Dir: dir}, w.YqBin(), fmt.Sprintf(".[%d] | @sh", off), docf)
		res.Evals++
		if br.TimedOut {
			res.Verdict, res.Detail = mon.Inconclusive, "binary timed out"
			return res
		}
		if got := strings.TrimSuffix(string(br.Stdout), "\n"); br.Exit != 0 || got != words[0] {
			res.Verdict = mon.Violated
			res.Detail = fmt.Sprintf("binary and library disagree on @sh of %q: binary exit=%d %q, library %q", strs[0], br.Exit, got, words[0])
			return res
		}
		res.Tags = append(res.Tags, "binary_crosscheck")
	}
	// one shell script evaluating every word
	var sc strings.Builder
	for _, wd := range words {
		sc.WriteString("set -- " + wd + "\nprintf '%s\\0%s\\0' \"$#\" \"$1\"\n")
	}
	// ... and every word once more as the value of an assignment (tilde and other expansions differ there)
	for _, wd := range words {
		sc.WriteString("v=" + wd + "\nprintf 'A%s\\0' \"$v\"\n")
	}
	for _, shell := range []string{"/bin/dash", "/bin/bash"} {
		sr := runShell(w, shell, dir, sc.String(), traced && shell == "/bin/dash")
		res.Tags = append(res.Tags, "shell:"+filepath.Base(shell))
		if sr.timedOut {
			res.Verdict, res.Detail = mon.Inconclusive, "shell timed out"
			return res
		}
		if _, err := os.Stat(filepath.Join(dir, "CANARY")); err == nil {
			res.Verdict = mon.Violated
			res.Detail = fmt.Sprintf("CANARY created: the shell executed part of an @sh word. words=%q", words)
			return res
		}
		parts := bytes.Split(sr.out, []byte{0})
		for i := range strs {
			if 2*i+1 >= len(parts) || string(parts[2*i]) != "1" || string(parts[2*i+1]) != strs[i] {
				got := "(missing)"
				cnt := "?"
				if 2*i+1 < len(parts) {
					cnt, got = string(parts[2*i]), string(parts[2*i+1])
				}
				res.Verdict = mon.Violated
				res.Detail = fmt.Sprintf("%s: @sh word for %q is %q; the shell saw %s word(s), first = %q (exit=%d stderr=%q)", shell, strs[i], words[i], cnt, got, sr.exit, clipStr(sr.stderr, 200))
				return res
			}
		}
		for i := range strs {
			if k := 2*len(strs) + i; k >= len(parts) || string(parts[k]) != "A"+strs[i] {
				got := "(missing)"
				if k < len(parts) {
					got = string(parts[k])
				}
				res.Verdict = mon.Violated
				res.Detail = fmt.Sprintf("%s: `v=WORD` with the @sh word %q for %q leaves %q in $v", shell, words[i], strs[i], strings.TrimPrefix(got, "A"))
				return res
			}
		}
		if sr.execves >= 0 {
			res.Tags = append(res.Tags, "straced")
			if sr.execves != 1 {
				res.Verdict = mon.Violated
				res.Detail = fmt.Sprintf("%s: strace saw %d execve calls (expected only the shell's own): words=%q", shell, sr.execves, words)
				return res
			}
		}
	}
	res.Verdict = mon.Held
	res.Detail = fmt.Sprintf("%d words, e.g. %q -> %q", n, strs[0], words[0])
	return res
}

// ---- -o=shell --------------------------------------------------------------------------

type shLeaf struct {
	text string
}

// a leaf whose YAML spelling is not its JSON text: typed scalars with shell syntax in their text
// (explicit core tags), and nulls / booleans in their YAML spellings
type shRaw struct{ yaml, text string }

var shTyped = []shRaw{
	{"~", "~"}, {"null", "null"}, {"Null", "Null"}, {"NULL", "NULL"}, {"True", "True"}, {"FALSE", "FALSE"}, {"1.5", "1.5"}, {"-0.0", "-0.0"}, {"0x1F", "0x1F"}, {".inf", ".inf"},
	{`!!int "80; : > CANARY"`, "80; : > CANARY"}, {`!!int "$(: > CANARY)"`, "$(: > CANARY)"}, {`!!bool "true` + "`: > CANARY`" + `"`, "true`: > CANARY`"},
	{`!!float "1.5 2"`, "1.5 2"}, {`!!null "~root"`, "~root"}, {`!!int "*"`, "*"}, {`!!str 12`, "12"}, {`!!int "1'2"`, "1'2"}, {`!custom "a b"`, "a b"}, {`!custom "$x"`, "$x"},
	{"2001-12-14t21:59:43.10-05:00", "2001-12-14t21:59:43.10-05:00"}, {"!!binary aGVsbG8=", "aGVsbG8="},
}

func c17Doc(r *rand.Rand, depth int, leaves *[]shLeaf) *ref.V {
	if depth <= 0 || r.IntN(3) == 0 {
		if r.IntN(5) == 0 {
			t := shTyped[r.IntN(len(shTyped))]
			*leaves = append(*leaves, shLeaf{t.text})
			// smuggled through the JSON printer as a marker string, replaced by the YAML spelling afterwards
			return ref.StrV("\x00RAW" + t.yaml + "\x00")
		}
		var v *ref.V
		switch r.IntN(8) {
		case 0:
			v = ref.IntV(int64(r.IntN(1000) - 500))
		case 1:
			v = ref.BoolV(r.IntN(2) == 0)
		default:
			v = ref.StrV(c17Str(r))
		}
		txt := v.S
		if v.K != ref.Str {
			txt = v.JSON()
		}
		*leaves = append(*leaves, shLeaf{txt})
		return v
	}
	w := 1 + r.IntN(3)
	if r.IntN(3) == 0 {
		s := &ref.V{K: ref.Seq}
		for i := 0; i < w; i++ {
			s.A = append(s.A, c17Doc(r, depth-1, leaves))
		}
		return s
	}
	m := &ref.V{K: ref.Map}
	for i := 0; i < w; i++ {
		var k string
		if r.IntN(2) == 0 {
			k = c17Str(r)
		} else {
			k = []string{"a", "b", "key", "x1", "9lives", "with space", "dash-ed", "dot.ted", "é", "_u", "A", "port\u0663", "\u096bx", "n\u0e52", "\uff11a"}[r.IntN(15)]
		}
		if _, dup := m.Get(k); dup {
			continue
		}
		m.M = append(m.M, ref.KV{K: k, V: c17Doc(r, depth-1, leaves)})
	}
	if len(m.M) == 0 {
		m.M = append(m.M, ref.KV{K: "k", V: c17Doc(r, 0, leaves)})
	}
	return m
}

type shAssign struct{ name, value string }

// parseShellAssignments is the independent POSIX parser: NAME=WORD per logical line where WORD is a
// concatenation of '…' blocks, "…" blocks free of $ ` \ and runs of characters that need no quoting.
func parseShellAssignments(out string) ([]shAssign, error) {
	var res []shAssign
	i := 0
	for i < len(out) {
		eq := strings.IndexByte(out[i:], '=')
		if eq < 0 {
			return res, fmt.Errorf("text without '=' at offset %d: %q", i, clipStr(out[i:], 60))
		}
		name := out[i : i+eq]
		if !shNameRe.MatchString(name) {
			return res, fmt.Errorf("NAME %q does not match [A-Za-z_][A-Za-z0-9_]*", clipStr(name, 60))
		}
		i += eq + 1
		var val strings.Builder
	word:
		for {
			if i >= len(out) {
				return res, fmt.Errorf("assignment %s not terminated by newline", name)
			}
			c := out[i]
			switch {
			case c == '\n':
				i++
				break word
			case c == '\'':
				end := strings.IndexByte(out[i+1:], '\'')
				if end < 0 {
					return res, fmt.Errorf("unterminated single quote in value of %s", name)
				}
				val.WriteString(out[i+1 : i+1+end])
				i += end + 2
			case c == '"':
				end := strings.IndexByte(out[i+1:], '"')
				if end < 0 {
					return res, fmt.Errorf("unterminated double quote in value of %s", name)
				}
				seg := out[i+1 : i+1+end]
				if strings.ContainsAny(seg, "$`\\!") {
					return res, fmt.Errorf("double-quoted segment %q in value of %s contains an expansion character", seg, name)
				}
				val.WriteString(seg)
				i += end + 2
			case c >= 'a' && c <= 'z' || c >= 'A' && c <= 'Z' || c >= '0' && c <= '9' || strings.IndexByte("_@%+=:,./-", c) >= 0:
				val.WriteByte(c)
				i++
			default:
				return res, fmt.Errorf("unquoted character %q in value of %s", string(c), name)
			}
		}
		res = append(res, shAssign{name, val.String()})
	}
	return res, nil
}

func (p c17) runShellVars(w *mon.Worker, r *rand.Rand, dir string, traced bool) mon.Result {
	var leaves []shLeaf
	doc := c17Doc(r, 1+r.IntN(4), &leaves)
	if doc.IsScalar() {
		doc = ref.MapV(ref.KV{K: "root", V: doc})
	}
	res := mon.Result{Tags: []string{"mode:-o=shell"}}
	text := shRawRe.ReplaceAllStringFunc(doc.JSON(), func(m string) string {
		var raw string
		if v, err := ref.ParseJSON(m); err == nil {
			raw = strings.TrimSuffix(strings.TrimPrefix(v.S, "\x00RAW"), "\x00")
		}
		return raw
	}) + "\n"
	if r.IntN(3) == 0 {
		// block scalars: the text of `|` / `>` values ends in the line feeds their chomping indicator keeps
		blk, btexts := c17Blocks(r)
		if js, jerr, jpan := yqx.Eval("[.[]]", blk, "yaml", "json"); jerr == nil && jpan == nil {
			if vs, perr := ref.ParseJSONStream(js); perr == nil && len(vs) == 1 && len(vs[0].A) == len(btexts) {
				agree := true
				for i, v := range vs[0].A {
					agree = agree && v.K == ref.Str && v.S == btexts[i]
				}
				if agree { // my reading of the block scalars is the decoder's: use them
					text = "flow: " + text + blk
					for _, t := range btexts {
						leaves = append(leaves, shLeaf{t})
					}
					res.Tags = append(res.Tags, "block_scalars")
				} else {
					res.Tags = append(res.Tags, "block_model_disagrees")
				}
			}
		}
	}
	shExpr := "."
	if r.IntN(3) == 0 {
		// the document sits one level down and is SELECTED by the expression: names are formed from the selected node on
		if body := strings.TrimSuffix(text, "\n"); strings.Contains(body, "\n") {
			text = "wrap:\n  " + strings.ReplaceAll(body, "\n", "\n  ") + "\nother: 1\n"
		} else {
			text = "wrap: " + body + "\nother: 1\n"
		}
		shExpr = ".wrap"
		res.Tags = append(res.Tags, "selected_inner_node")
	}
	res.Case = map[string]any{"doc": text, "expr": shExpr}
	res.Sig = fmt.Sprintf("shell|%x", hashStr(text))
	docf := filepath.Join(dir, "in.yaml")
	_ = os.WriteFile(docf, []byte(text), 0o644)
	// flags that shape other output formats change nothing here: the text is shell assignments, quoted as needed
	argv := []string{w.YqBin(), "-o=shell"}
	if fl := []string{"", "", "-r", "--unwrapScalar", "-r=false", "-N", "-I4", "-M", "-rN"}[r.IntN(9)]; fl != "" {
		if r.IntN(2) == 0 {
			argv = []string{w.YqBin(), fl, "-o=shell"}
		} else {
			argv = append(argv, fl)
		}
		res.Tags = append(res.Tags, "flag:"+fl)
	}
	br := mon.Run(mon.RunOpts{Dir: dir}, append(argv, shExpr, docf)...)
	res.Evals++
	if br.TimedOut {
		res.Verdict, res.Detail = mon.Inconclusive, "binary timed out"
		return res
	}
	if br.Exit != 0 {
		res.Verdict = mon.Violated
		res.Detail = fmt.Sprintf("yq -o=shell failed (exit %d): %s", br.Exit, clipStr(string(br.Stderr), 300))
		return res
	}
	out := string(br.Stdout)
	// in-process encoder must print the same bytes
	if lib, err, pan := yqx.Eval(shExpr, text, "yaml", "shell"); err != nil || pan != nil || lib != out {
		res.Verdict = mon.Violated
		res.Detail = fmt.Sprintf("binary and library disagree on -o=shell: %q vs %q (err=%v)", clipStr(out, 300), clipStr(lib, 300), err)
		return res
	}
	// names are formed from where a value stands NOW: the -o=shell text of a re-arranged document (reversed, sliced,
	// doubled, filtered) is the -o=shell text of that document written out as JSON and read again
	if r.IntN(4) == 0 {
		sel := shExpr
		if sel == "." {
			sel = ""
		}
		re := []string{" | (.. | select(kind == \"seq\")) |= reverse", " | (.. | select(kind == \"seq\")) |= .[1:]", " | (.. | select(kind == \"seq\")) |= . + .",
			" | (.. | select(kind == \"seq\")) |= [.[] | select(true)]", " | [., .]", " | (.. | select(kind == \"seq\")) |= (.[1:] + .[:1])"}[r.IntN(6)]
		ex := "." + strings.TrimPrefix(sel, ".") + re
		if sel == "" {
			ex = "." + re
		}
		direct := mon.Run(mon.RunOpts{Dir: dir}, w.YqBin(), "-o=shell", ex, docf)
		mid := mon.Run(mon.RunOpts{Dir: dir}, w.YqBin(), "-o=json", ex, docf) // (JSON carries every string exactly)
		res.Evals += 2
		if !direct.TimedOut && !mid.TimedOut && direct.Exit == 0 && mid.Exit == 0 {
			midf := filepath.Join(dir, "mid.json")
			_ = os.WriteFile(midf, mid.Stdout, 0o644)
			again := mon.Run(mon.RunOpts{Dir: dir}, w.YqBin(), "-p=json", "-o=shell", ".", midf)
			res.Evals++
			// (the NAMES are compared: JSON re-spells typed scalars - NULL, 0x1F, FALSE - which is not this route's business)
			namesOf := func(out []byte) (string, bool) {
				as, err := parseShellAssignments(string(out))
				if err != nil {
					return "", false
				}
				var ns []string
				for _, a := range as {
					ns = append(ns, a.name)
				}
				return strings.Join(ns, " "), true
			}
			n1, ok1 := namesOf(direct.Stdout)
			n2, ok2 := namesOf(again.Stdout)
			if !again.TimedOut && again.Exit == 0 && ok1 && ok2 && n1 != n2 {
				res.Verdict = mon.Violated
				res.Detail = fmt.Sprintf("yq -o=shell '%s' differs from yq -o=shell . on the JSON that `%s` writes\n direct:\n%s after the round trip:\n%s", ex, ex, clipStr(string(direct.Stdout), 500), clipStr(string(again.Stdout), 500))
				return res
			}
			res.Tags = append(res.Tags, "rearranged_round_trip")
		}
	}
	assigns, perr := parseShellAssignments(out)
	if perr != nil {
		res.Verdict = mon.Violated
		res.Detail = "output is not a list of safe NAME=VALUE assignments: " + perr.Error() + "\noutput: " + clipStr(out, 600)
		return res
	}
	if len(assigns) != len(leaves) {
		res.Verdict = mon.Violated
		res.Detail = fmt.Sprintf("document has %d scalar leaves but output defines %d assignments\noutput: %s", len(leaves), len(assigns), clipStr(out, 600))
		return res
	}
	special := false
	for i, a := range assigns {
		if a.value != leaves[i].text {
			res.Verdict = mon.Violated
			res.Detail = fmt.Sprintf("assignment %d (%s): POSIX parse of the value gives %q, leaf text is %q", i, a.name, a.value, leaves[i].text)
			return res
		}
		if !shSafeOnly.MatchString(a.value) || a.value == "" {
			res.Nontrivial = true
		}
		if shIsSpecial(a.name) {
			special = true
		}
	}
	if special {
		res.Verdict = mon.Held
		res.Tags = append(res.Tags, "special_name_syntactic_only")
		res.Detail = "names collide with shell-special variables; checked syntactically only"
		return res
	}
	// last assignment wins per name
	final := map[string]string{}
	var order []string
	for _, a := range assigns {
		if _, ok := final[a.name]; !ok {
			order = append(order, a.name)
		}
		final[a.name] = a.value
	}
	if len(order) != len(assigns) {
		res.Tags = append(res.Tags, "name_collision")
	}
	_ = os.WriteFile(filepath.Join(dir, "out.sh"), br.Stdout, 0o644)
	var sc strings.Builder
	sc.WriteString(". ./out.sh\nprintf '%s\\0'")
	for _, n := range order {
		sc.WriteString(" \"$" + n + "\"")
	}
	sc.WriteString("\n")
	for _, shell := range []string{"/bin/dash", "/bin/bash"} {
		sr := runShell(w, shell, dir, sc.String(), traced && shell == "/bin/bash")
		res.Tags = append(res.Tags, "shell:"+filepath.Base(shell))
		if sr.timedOut {
			res.Verdict, res.Detail = mon.Inconclusive, "shell timed out"
			return res
		}
		if _, err := os.Stat(filepath.Join(dir, "CANARY")); err == nil {
			res.Verdict = mon.Violated
			res.Detail = "CANARY created: sourcing the -o=shell output executed something\noutput: " + clipStr(out, 600)
			return res
		}
		parts := bytes.Split(sr.out, []byte{0})
		for i, n := range order {
			if i >= len(parts) || string(parts[i]) != final[n] {
				got := "(missing)"
				if i < len(parts) {
					got = string(parts[i])
				}
				res.Verdict = mon.Violated
				res.Detail = fmt.Sprintf("%s: after sourcing, $%s = %q, expected %q (exit=%d stderr=%q)\noutput: %s", shell, n, got, final[n], sr.exit, clipStr(sr.stderr, 200), clipStr(out, 600))
				return res
			}
		}
		if sr.execves >= 0 {
			res.Tags = append(res.Tags, "straced")
			if sr.execves != 1 {
				res.Verdict = mon.Violated
				res.Detail = fmt.Sprintf("%s: strace saw %d execve calls while sourcing (expected only the shell's own)\noutput: %s", shell, sr.execves, clipStr(out, 600))
				return res
			}
		}
	}
	res.Verdict = mon.Held
	res.Detail = fmt.Sprintf("%d leaves, %d names; e.g. %s=%q", len(leaves), len(order), order[0], final[order[0]])
	return res
}

// c17Blocks writes 1..3 top-level keys whose values are literal / folded block scalars with every chomping
// indicator and returns the document text and the string each value denotes.
func c17Blocks(r *rand.Rand) (string, []string) {
	line := func() string {
		for {
			s := c17Str(r)
			ok := s != "" && s[0] != ' ' && s[0] != '\t' && s[0] != '#' && utf8.ValidString(s) && !strings.HasSuffix(s, " ") && !strings.HasSuffix(s, "\t")
			for _, c := range s {
				if c < 0x20 || c == 0x7f || (c >= 0x80 && c <= 0x9f) || c == 0x2028 || c == 0x2029 || c == 0xfeff || c == 0xfffe || c == 0xffff {
					ok = false
				}
			}
			if ok {
				return s
			}
		}
	}
	var sb strings.Builder
	var texts []string
	n := 1 + r.IntN(3)
	for i := 0; i < n; i++ {
		style := "|"
		nl := 1 + r.IntN(3)
		if r.IntN(3) == 0 {
			style, nl = ">", 1
		}
		chomp := []string{"", "-", "+"}[r.IntN(3)]
		var ls []string
		for j := 0; j < nl; j++ {
			ls = append(ls, line())
		}
		fmt.Fprintf(&sb, "blk%d: %s%s\n", i, style, chomp)
		for _, l := range ls {
			sb.WriteString("  " + l + "\n")
		}
		txt := strings.Join(ls, "\n")
		switch chomp {
		case "":
			txt += "\n"
		case "+":
			extra := r.IntN(3)
			sb.WriteString(strings.Repeat("\n", extra))
			txt += "\n" + strings.Repeat("\n", extra)
		}
		texts = append(texts, txt)
	}
	return sb.String(), texts
}
