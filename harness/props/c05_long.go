package props

import (
	"fmt"
	"math/rand/v2"
	"strings"

	"verifharness/mon"
	"verifharness/ref"
)

// Long-line family of C05: the decoder reads the leading comment block through a bufio.Reader of
// 4096 bytes before the YAML parser sees anything; lines around and beyond that size (comments,
// directives-free headers, long plain scalars and keys) must come through like any other line.
// Oracles: the same as the generated family (data, presentation, comment stream, idempotence), with
// yaml.v3's reading of the input as ground truth, plus a text-level check of the comment lines.
func c05LongCase(w *mon.Worker, r *rand.Rand) mon.Result {
	lens := []int{4090, 4093, 4094, 4095, 4096, 4097, 4098, 4100, 5000, 8190, 8192, 8193, 12290, 70000}
	fill := func(n int, tail string) string {
		var sb strings.Builder
		words := []string{"lorem", "ipsum", "x", "key:", "- item", "a: 1", "{", "[", "*", "&", "#", "'", "\""}
		for sb.Len() < n-len(tail) {
			sb.WriteString(words[r.IntN(len(words))])
			sb.WriteByte(' ')
		}
		s := sb.String()[:n-len(tail)]
		s = strings.TrimRight(s, " ")
		for len(s) < n-len(tail) {
			s += "_"
		}
		return s + tail
	}
	var sb strings.Builder
	nc := 1 + r.IntN(2)
	kind := "header"
	for i := 0; i < nc; i++ {
		n := lens[r.IntN(len(lens))] + r.IntN(3) - 1
		tail := []string{" b: 2", " - z", "_end", " zz: {q: 1}", ""}[r.IntN(5)]
		sb.WriteString("# " + fill(n-2, tail) + "\n")
		if r.IntN(4) == 0 {
			sb.WriteString("\n")
		}
	}
	if r.IntN(3) == 0 {
		sb.WriteString("---\n")
	}
	sb.WriteString(fmt.Sprintf("a: %d\n", r.IntN(100)))
	switch r.IntN(4) {
	case 0:
		kind = "header+longvalue"
		sb.WriteString("long: " + strings.Repeat("v", lens[r.IntN(len(lens))]) + "\n")
	case 1:
		kind = "header+innercomment"
		sb.WriteString("# " + fill(lens[r.IntN(len(lens))], " c: 3") + "\n")
		sb.WriteString("d: [1, 2]\n")
	case 2:
		kind = "header+footer"
		sb.WriteString("e: x\n# " + fill(lens[r.IntN(len(lens))], "") + "\n")
	}
	text := sb.String()
	res := mon.Result{Case: map[string]any{"text_len": len(text), "text_head": clipStr(text, 200), "text": text}}
	tags := map[string]bool{"family:longlines": true, "longlines:" + kind: true}
	finish := func() mon.Result {
		for t := range tags {
			res.Tags = append(res.Tags, t)
		}
		return res
	}
	res.Sig = fmt.Sprintf("long|%s|%x", kind, hashStr(text))
	in, perr := ref.ExtractYAML(text)
	if perr != nil {
		res.Verdict, res.Detail = mon.Inconclusive, "yaml.v3 rejects the text: "+perr.Error()
		return finish()
	}
	res.Nontrivial = true
	var lib []ref.YDoc
	if lt, err := ref.LibRoundTrip(text); err == nil {
		if ld, err := ref.ExtractYAML(lt); err == nil {
			lib = ref.AlignLib(in, ld)
		}
	}
	out, _, fails, abort := c05Pass(text, in, in, lib, true, tags, &res.Evals)
	if abort != nil {
		res.Verdict, res.Detail = abort.Verdict, abort.Detail+"\n--- input (head)\n"+clipStr(text, 300)
		return finish()
	}
	want, got := c05CommentLinesOfText(text), c05CommentLinesOfText(out)
	if !c05EqStrs(want, got) {
		fails = append(fails, c05Fail{Doc: -1, Oracle: "O2-comment-lines", Detail: fmt.Sprintf("the %d comment line(s) of the input (lengths %v) come out as %d line(s) (lengths %v)", len(want), strLens(want), len(got), strLens(got))})
	}
	var real []c05Fail
	for _, f := range fails {
		if !f.Comma && !f.Short {
			real = append(real, f)
		}
	}
	if len(real) == 0 {
		res.Verdict, res.Detail = mon.Held, fmt.Sprintf("%d bytes, %d comment lines carried", len(text), len(want))
		return finish()
	}
	res.Verdict = mon.Violated
	res.Detail = c05FailText(real) + "--- input (head of each line)\n" + headLines(text) + "--- yq . (head of each line)\n" + headLines(out)
	return finish()
}

func strLens(ss []string) []int {
	out := make([]int, len(ss))
	for i, s := range ss {
		out[i] = len(s)
	}
	return out
}

func headLines(s string) string {
	var sb strings.Builder
	for _, ln := range strings.Split(s, "\n") {
		if len(ln) > 60 {
			ln = fmt.Sprintf("%s…(%d bytes)…%s", ln[:30], len(ln), ln[len(ln)-20:])
		}
		sb.WriteString(ln + "\n")
	}
	return clipStr(sb.String(), 1500)
}
