package props

import (
	"fmt"
	"math/rand/v2"
	"strings"

	"verifharness/mon"
	"verifharness/ref"
)

// C03 family `typedkeys`: maps of YAML documents whose keys are not strings (integers written in decimal, with leading
// zeros, in hex or octal, floats, booleans, null) next to string keys, one or two levels deep. An entry is selected by
// position (`.[1]` for a decimal key; hex and octal keys only by value: a bracket looks keys up by their text), by its value, by a walk, or by its key read back (`select(key == ...)` is left
// out: what `key` reports is C16's subject) and deleted. Expected: the same map without exactly those entries - the
// values are unique strings, the expectation is computed on the generator's own entry list, and the result is read from
// the JSON output, where every key is its text as written.
//
// Found by this family on the unchanged tree before repair 0e88942: `del(.[1])` on `{1: a, b: c}` kept the entry
// (deleteFromMap compared the key's text with the parsed path element).

type c03TK struct {
	text string // the key as written
	sel  string // how a path expression addresses it ("" = only by value)
	val  string
}

func c03TypedKeysCase(r *rand.Rand, idx int) mon.Result {
	res := mon.Result{Tags: []string{"family:typedkeys"}}
	cs := map[string]any{"family": "typedkeys"}
	res.Case = cs
	fail := func(f string, a ...any) mon.Result {
		res.Verdict = mon.Violated
		res.Detail = fmt.Sprintf(f, a...)
		return res
	}
	n := 2 + r.IntN(5)
	used := map[string]bool{}
	usedNum := map[int]bool{}
	var ents []c03TK
	for len(ents) < n {
		var e c03TK
		switch r.IntN(9) {
		case 0, 1, 2:
			k := r.IntN(40)
			if usedNum[k] {
				continue
			}
			usedNum[k] = true
			e = c03TK{text: fmt.Sprint(k), sel: fmt.Sprintf("[%d]", k)}
			res.Tags = append(res.Tags, "key:int")
		case 3:
			k := 8 + r.IntN(200)
			if usedNum[k] {
				continue
			}
			usedNum[k] = true
			e = c03TK{text: fmt.Sprintf("0x%X", k)} // (selected by value only: `.[46]` looks keys up by their text)
			res.Tags = append(res.Tags, "key:hex")
		case 4:
			k := 8 + r.IntN(200)
			if usedNum[k] {
				continue
			}
			usedNum[k] = true
			e = c03TK{text: fmt.Sprintf("0o%o", k)}
			res.Tags = append(res.Tags, "key:octal")
		case 5:
			e = c03TK{text: []string{"1.5", "2.25", "-0.5", "1e3"}[r.IntN(4)]}
			res.Tags = append(res.Tags, "key:float")
		case 6:
			e = c03TK{text: []string{"true", "false", "~", "null"}[r.IntN(4)]}
			res.Tags = append(res.Tags, "key:bool_or_null")
		default:
			k := []string{"a", "b", "c", "k1", "name"}[r.IntN(5)]
			e = c03TK{text: k, sel: "." + k}
		}
		if used[e.text] {
			continue
		}
		used[e.text] = true
		e.val = fmt.Sprintf("v%d", len(ents))
		ents = append(ents, e)
	}
	nested := r.IntN(2) == 0
	block := r.IntN(2) == 0
	var sb strings.Builder
	ind := ""
	if nested {
		if block {
			sb.WriteString("keep: 1\nm:\n")
			ind = "  "
		} else {
			sb.WriteString("{keep: 1, m: ")
		}
	}
	if block {
		for _, e := range ents {
			sb.WriteString(ind + e.text + ": " + e.val + "\n")
		}
	} else {
		sb.WriteString("{")
		for i, e := range ents {
			if i > 0 {
				sb.WriteString(", ")
			}
			sb.WriteString(e.text + ": " + e.val)
		}
		sb.WriteString("}")
		if nested {
			sb.WriteString("}")
		}
		sb.WriteString("\n")
	}
	text := sb.String()
	cs["input"] = text
	base := "."
	if nested {
		base = ".m"
		res.Tags = append(res.Tags, "nested")
	}
	// the selection: one or two entries
	gone := map[int]bool{}
	pick := func() int { return r.IntN(len(ents)) }
	var sel string
	t := pick()
	switch form := r.IntN(5); {
	case form <= 1 && ents[t].sel != "":
		// by position / name
		gone[t] = true
		if nested {
			sel = ".m" + ents[t].sel
		} else if strings.HasPrefix(ents[t].sel, "[") {
			sel = "." + ents[t].sel
		} else {
			sel = ents[t].sel
		}
		if u := pick(); r.IntN(3) == 0 && u != t && ents[u].sel != "" {
			gone[u] = true
			if nested {
				sel += ", .m" + ents[u].sel
			} else if strings.HasPrefix(ents[u].sel, "[") {
				sel += ", ." + ents[u].sel
			} else {
				sel += ", " + ents[u].sel
			}
		}
		res.Tags = append(res.Tags, "sel:by_key")
	case form == 2:
		gone[t] = true
		sel = fmt.Sprintf("%s[] | select(. == %q)", strings.TrimSuffix(base, "."), ents[t].val)
		if !nested {
			sel = fmt.Sprintf(".[] | select(. == %q)", ents[t].val)
		}
		res.Tags = append(res.Tags, "sel:by_value")
	case form == 3:
		gone[t] = true
		u := pick()
		gone[u] = true
		sel = fmt.Sprintf(".. | select(. == %q or . == %q)", ents[t].val, ents[u].val)
		res.Tags = append(res.Tags, "sel:walk")
	default:
		// every entry but one
		for i := range ents {
			gone[i] = i != t
		}
		if nested {
			sel = fmt.Sprintf(".m[] | select(. != %q)", ents[t].val)
		} else {
			sel = fmt.Sprintf(".[] | select(. != %q)", ents[t].val)
		}
		res.Tags = append(res.Tags, "sel:all_but_one")
	}
	expr := "del(" + sel + ")"
	if r.IntN(4) == 0 {
		expr = "del(" + sel + ") | ."
	}
	cs["expr"] = expr
	want := &ref.V{K: ref.Map, M: []ref.KV{}}
	for i, e := range ents {
		if !gone[i] {
			want.M = append(want.M, ref.KV{K: e.text, V: ref.StrV(e.val)})
		}
	}
	if nested {
		want = ref.MapV(ref.KV{K: "keep", V: ref.IntV(1)}, ref.KV{K: "m", V: want})
	}
	res.Sig = fmt.Sprintf("typedkeys|%v|%v|%d|%s", nested, block, len(ents), strings.Join(res.Tags[1:], ","))
	got, all, yerr := evalTextFmt(expr, text, "yaml")
	res.Evals++
	if yerr != nil {
		return fail("`%s` failed: %v\n input %s", expr, yerr, text)
	}
	if got == nil || !ref.EqualNum(got, want) {
		return fail("`%s`\n document %s expected %s\n observed %s (%d result(s))", expr, text, want, got, len(all))
	}
	res.Verdict, res.Nontrivial = mon.Held, len(ents) > 2
	res.Detail = fmt.Sprintf("%d of %d entries with typed keys removed", len(ents)-len(want.M), len(ents))
	return res
}
