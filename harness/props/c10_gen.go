package props

import (
	"fmt"
	"math/rand/v2"
	"strings"

	"verifharness/gen"
	"verifharness/ref"
)

// ---- expressions ---------------------------------------------------------------------------
//
// Document-local, deterministic expressions only: nothing that reads the position of the
// document in its stream (document_index, file_index, filename, line, column), nothing that
// reaches outside (env, load, now, shuffle) and no split_doc (it rewrites document indices).
// Always spaces around binary operators (`.a>1` is the key "a>1" for yq's lexer).

type c10Tmpl struct {
	Expr   string
	Shape  string // document shape it is written for: map | seq | seqmap | any
	Class  string // nominal results per document: "0/1" | "1" | "many"
	Writer bool   // writes into the document tree or carries state in the expression tree (O5)
	Op     string // operator family for the evidence histogram
}

var c10Tmpls = []c10Tmpl{
	// map-shaped documents
	{".", "any", "1", false, "identity"},
	{".a", "map", "1", false, "traverse"},
	{".a.b", "map", "1", false, "traverse"},
	{".a, .b", "map", "many", false, "union"},
	{".b, .a, .x", "map", "many", false, "union"},
	{".[]", "map", "many", false, "splat"},
	{".a[]", "map", "many", false, "splat"},
	{".a = 1", "map", "1", true, "assign"},
	{".a = .b", "map", "1", true, "assign"},
	{".a |= . + 1", "map", "1", true, "update"},
	{".a += 1", "map", "1", true, "add-assign"},
	{".x -= 1", "map", "1", true, "sub-assign"},
	{"(.a, .b) |= . + 1", "map", "1", true, "update"},
	{".[] |= . * 2", "map", "1", true, "update"},
	{".c = [.a, .b]", "map", "1", true, "assign"},
	{".b = (.a | length)", "map", "1", true, "assign"},
	{"del(.b)", "map", "1", true, "del"},
	{"del(.[] | select(. == 1))", "map", "1", true, "del"},
	{"with(.a; . = 3)", "map", "1", true, "with"},
	{"with(.a; . |= . + 1)", "map", "1", true, "with"},
	{"with(.[]; . = 1)", "map", "1", true, "with"},
	{"select(.x > 1)", "map", "0/1", false, "select"},
	{"select(.a == 1)", "map", "0/1", false, "select"},
	{"select(has(\"a\"))", "map", "0/1", false, "select"},
	{"select(.a != null) | .a", "map", "0/1", false, "select"},
	{".. | select(tag == \"!!int\")", "any", "many", false, "recurse"},
	{".. | select(kind == \"scalar\")", "any", "many", false, "recurse"},
	{"(.. | select(tag == \"!!int\")) |= . + 1", "any", "1", true, "update"},
	{"length", "map", "1", false, "length"},
	{"keys", "map", "1", false, "keys"},
	{"keys | .[]", "map", "many", false, "keys"},
	{"to_entries", "map", "1", false, "entries"},
	{"to_entries | .[]", "map", "many", false, "entries"},
	{"with_entries(.value |= . + 1)", "map", "1", true, "entries"},
	{"sort_keys(.)", "map", "1", true, "sort_keys"},
	{"sort_keys(..)", "any", "1", true, "sort_keys"},
	{"... style = \"flow\"", "any", "1", true, "style"},
	{".. style = \"double\"", "any", "1", true, "style"},
	{"explode(.)", "any", "1", true, "explode"},
	// a regular expression taken from the document (variable / interpolation): compiled per document
	{"(.a | to_string) as $p | [.. | select(kind == \"scalar\") | to_string | test($p)]", "map", "1", true, "regex-from-doc"},
	{"(.x | to_string) as $p | [.. | select(kind == \"scalar\") | to_string | sub($p; \"_\")]", "map", "1", true, "regex-from-doc"},
	{"[.. | select(kind == \"scalar\") | to_string] | map(test(\"^\\(.[0])\"))", "map", "1", true, "regex-from-doc"},
	{"(.a | to_string) as $p | [.. | select(kind == \"scalar\") | to_string | match($p) | .string]", "map", "1", true, "regex-from-doc"},
	{".b | explode(.)", "map", "1", true, "explode"},
	{"explode(.) | .b", "map", "1", true, "explode"},
	{"explode(.) | [.b, .c]", "map", "1", true, "explode"},
	{". * {\"c\": 1}", "map", "1", true, "merge"},
	{". *+ {\"a\": [0]}", "map", "1", true, "merge"},
	{". as $x | $x.a", "map", "1", true, "variable"},
	{". as $x | .b = $x.a", "map", "1", true, "variable"},
	{".a as $x | .b as $y | {\"s\": $x, \"t\": $y}", "map", "1", true, "variable"},
	{".[] as $i ireduce (0; . + 1)", "map", "1", true, "reduce"},
	{".[] as $i ireduce ({}; .n += 1)", "map", "1", true, "reduce"},
	{"[.[] | . + 1]", "map", "1", true, "collect"},
	{"[.[]]", "any", "1", true, "collect"},
	{"[.a, .b]", "map", "1", false, "collect"},
	{"map_values(. + 1)", "map", "1", true, "map_values"},
	{"\"\\(.a) and \\(.b)\"", "map", "1", true, "interpolation"},
	{"\"v=\\(.)\"", "any", "1", true, "interpolation"},
	{"{\"k\": .a}", "map", "1", false, "object"},
	{"pick([\"a\"])", "map", "1", false, "pick"},
	{"omit([\"a\"])", "map", "1", false, "omit"},
	{"has(\"a\")", "map", "1", false, "has"},
	{".a // .b", "map", "1", false, "alternative"},
	{".a // \"dflt\"", "map", "1", false, "alternative"},
	{".a, length", "map", "many", false, "union"},
	{"length, keys", "map", "many", false, "union"},
	{"., .", "any", "many", false, "union"},
	// a bare literal of the expression updated in place (the parsed expression serves every document)
	{"(.a // 0) as $l | 0 | . += ($l | length)", "map", "1", true, "literal-mutate"},
	{"length as $n | 1 | . += $n", "any", "1", true, "literal-mutate"},
	{"(.. | select(kind == \"scalar\")) as $x ireduce (0; . += 1)", "any", "1", true, "literal-mutate"},
	{"\"s\" | . += \"x\" | . += \"y\"", "any", "1", true, "literal-mutate"},
	// a constant side file loaded for every document and then changed in place: each document starts from the file
	{". as $d | .cfg = (load(\"SIDE.yaml\") | .tags += [$d | length])", "map", "1", true, "load-mutate"},
	{". as $d | .x = (load(\"SIDE.yaml\") | .n += ($d | length) | .sub.k += \"!\" | [.n, .sub.k])", "map", "1", true, "load-mutate"},
	{"length as $n | .a = (load(\"SIDE.yaml\") | del(.tags[0]) | .tags += [$n] | .tags)", "map", "1", true, "load-mutate"},
	{".b = (load(\"SIDE.yaml\") | .tags += [\"t\"] | .tags | length)", "map", "1", true, "load-mutate"},
	{"pick([\"a\", \"b\"])", "map", "1", false, "pick-root"},
	{"pick([0])", "seq", "1", false, "pick-root"},
	{"omit([\"a\"])", "map", "1", false, "pick-root"},
	{"(., .[]) | . == 1", "map", "many", false, "union-root-first"},
	{"(., .[]) | [kind]", "map", "many", false, "union-root-first"},
	{"(., ..) | length * 10", "map", "many", false, "union-root-first"},
	{"(., .[]) as $x | [$x | kind]", "map", "many", true, "union-root-first"},
	{"(., .[]) | {\"k\": kind}", "any", "many", false, "union-root-first"},
	{"(., .[], .) | [kind] | length", "seq", "many", false, "union-root-first"},
	{"(., .) | [kind] | length", "any", "many", false, "union-root-first"},
	{".a == .b", "map", "1", false, "equals"},
	{". == 1", "any", "1", false, "equals"},
	{"to_json", "any", "1", false, "encode"},
	{"to_yaml", "any", "1", false, "encode"},
	{"tag", "any", "1", false, "tag"},
	{"kind", "any", "1", false, "kind"},
	{".a | tag", "map", "1", false, "tag"},
	{"[.]", "any", "1", false, "collect"},
	{"{\"v\": .}", "any", "1", false, "object"},
	{"select(kind == \"map\")", "any", "0/1", false, "select"},
	{"select(tag != \"!!null\")", "any", "0/1", false, "select"},
	{"[.. | select(kind == \"scalar\")] | length", "any", "1", false, "recurse"},
	{"..", "any", "many", false, "recurse"},
	{"[..]", "any", "1", false, "recurse"},
	{"path", "any", "1", false, "path"},
	{".. | path | length", "any", "many", false, "path"},
	// a literal of the expression is the target of an in-place operator (must be fresh for every document)
	{". as $d | {\"n\": 0} | .n += ($d | length)", "any", "1", true, "literal-target"},
	{". as $d | [0, 1] | .[0] += ($d | length)", "any", "1", true, "literal-target"},
	{". as $d | \"p\" | . += ($d | tag)", "any", "1", true, "literal-target"},
	{". as $d | {\"n\": {\"m\": 1}} | .n.m += ($d | length)", "any", "1", true, "literal-target"},
	{"{\"seen\": []} | .seen += [\"x\"]", "any", "1", true, "literal-target"},
	{"0 | . += 1", "any", "1", true, "literal-target"},
	// sequence-shaped documents
	{"sort", "seq", "1", true, "sort"},
	{"sort | .[0]", "seq", "1", true, "sort"},
	{"reverse", "seq", "1", false, "reverse"},
	{"unique", "seq", "1", false, "unique"},
	{"flatten", "seq", "1", true, "flatten"},
	{"flatten(1)", "seq", "1", true, "flatten"},
	{".[0]", "seq", "1", false, "index"},
	{".[-1]", "seq", "1", false, "index"},
	{".[0], .[1]", "seq", "many", false, "union"},
	{".[]", "seq", "many", false, "splat"},
	{".[] | key", "seq", "many", false, "key"},
	{"[.[] | key]", "seq", "1", false, "key"},
	{".[] | key | . * 10", "seq", "many", false, "key"},
	{".[] | key", "map", "many", false, "key"},
	{".[] | select(. > 1)", "seq", "many", false, "select"},
	{"[.[] | select(. > 1)]", "seq", "1", true, "collect"},
	{"map(. + 1)", "seq", "1", true, "map"},
	{"map(select(. != 1))", "seq", "1", true, "map"},
	{".[] |= . + 1", "seq", "1", true, "update"},
	{".[0] = 9", "seq", "1", true, "assign"},
	{"del(.[0])", "seq", "1", true, "del"},
	{"with(.[0]; . = 9)", "seq", "1", true, "with"},
	{". + [1]", "seq", "1", true, "add"},
	{". += [7]", "seq", "1", true, "add-assign"},
	{".[1:]", "seq", "1", false, "slice"},
	{".[] as $x ireduce (0; . + $x)", "seq", "1", true, "reduce"},
	{". as $x | $x[0]", "seq", "1", true, "variable"},
	{"join(\",\")", "seq", "1", false, "join"},
	{"length", "seq", "1", false, "length"},
	{"to_entries", "seq", "1", false, "entries"},
	{"any", "seq", "1", false, "any"},
	{"[.[] | to_string]", "seq", "1", true, "collect"},
	// sequences of maps
	{"sort_by(.x)", "seqmap", "1", true, "sort_by"},
	{"sort_by(.x) | .[0]", "seqmap", "1", true, "sort_by"},
	{"sort_by(.x, .a)", "seqmap", "1", true, "sort_by"},
	{"group_by(.x)", "seqmap", "1", true, "group_by"},
	{"unique_by(.x)", "seqmap", "1", true, "unique_by"},
	{".[] | .x", "seqmap", "many", false, "splat"},
	{"map(.x)", "seqmap", "1", true, "map"},
	{".[] | select(.x > 1)", "seqmap", "many", false, "select"},
	{"[.[] | select(.x > 1)]", "seqmap", "1", true, "collect"},
	{".[].x |= . + 1", "seqmap", "1", true, "update"},
	{"map(.a = 1)", "seqmap", "1", true, "map"},
	{".[] | sort_keys(.)", "seqmap", "many", true, "sort_keys"},
	{"del(.[] | select(.x == 1))", "seqmap", "1", true, "del"},
	{"[.[] | . * {\"n\": 1}]", "seqmap", "1", true, "merge"},
	{".[0] * .[1]", "seqmap", "1", true, "merge"},
	{"(.[] | select(.x == 1) | .a) = \"hit\"", "seqmap", "1", true, "assign"},
	{"map(keys)", "seqmap", "1", true, "map"},
	{".[] | to_entries | .[]", "seqmap", "many", false, "entries"},
	{"map(select(.x != null)) | sort_by(.x) | map(.x)", "seqmap", "1", true, "sort_by"},
	{"with(.[] | select(.x > 0); .seen = true)", "seqmap", "1", true, "with"},
}

var c10Tails = []string{"length", "tag", "kind", "[.]", "to_json", "{\"r\": .}", "select(. != null)", "select(kind == \"scalar\")"}

func c10PickTmpl(r *rand.Rand, writersOnly bool) c10Tmpl {
	for {
		t := c10Tmpls[r.IntN(len(c10Tmpls))]
		if writersOnly && !t.Writer {
			continue
		}
		return t
	}
}

// c10Compose occasionally pipes a template into a generic tail or unions two templates of one shape.
func c10Compose(r *rand.Rand, t c10Tmpl) c10Tmpl {
	if c10RootCopiesOnly[t.Expr] || t.Op == "pick-root" {
		return t // kept as written: finding matchers look at the exact expression
	}
	switch r.IntN(8) {
	case 0:
		tail := c10Tails[r.IntN(len(c10Tails))]
		t.Expr = "(" + t.Expr + ") | " + tail
		t.Op += "|tail"
		if strings.HasPrefix(tail, "select") && t.Class == "1" {
			t.Class = "0/1"
		}
	case 1:
		for tries := 0; tries < 20; tries++ {
			u := c10Tmpls[r.IntN(len(c10Tmpls))]
			if (u.Shape == t.Shape || u.Shape == "any") && !c10RootCopiesOnly[u.Expr] {
				t.Expr = "(" + t.Expr + "), (" + u.Expr + ")"
				t.Class = "many"
				t.Writer = t.Writer || u.Writer
				t.Op += ",union"
				break
			}
		}
	}
	return t
}

// ---- documents -------------------------------------------------------------------------------

var c10Keys = []string{"a", "b", "x", "c"}

func c10SmallScalar(r *rand.Rand) *ref.V {
	switch r.IntN(10) {
	case 0:
		return ref.StrV(gen.Str(r, true))
	case 1:
		return ref.StrV(gen.Str(r, false))
	case 2:
		return ref.NullV()
	case 3:
		return ref.BoolV(r.IntN(2) == 0)
	default:
		return ref.IntV(int64(r.IntN(9) - 2))
	}
}

func c10MapDoc(r *rand.Rand, depth int) *ref.V {
	m := &ref.V{K: ref.Map, M: []ref.KV{}}
	n := 1 + r.IntN(4)
	for i := 0; i < n; i++ {
		k := c10Keys[r.IntN(len(c10Keys))]
		if r.IntN(10) == 0 {
			k = gen.Str(r, false)
		}
		if _, dup := m.Get(k); dup {
			continue
		}
		var v *ref.V
		switch {
		case depth > 0 && r.IntN(6) == 0:
			v = c10MapDoc(r, depth-1)
		case depth > 0 && r.IntN(6) == 0:
			v = c10SeqDoc(r, depth-1)
		default:
			v = c10SmallScalar(r)
		}
		m.M = append(m.M, ref.KV{K: k, V: v})
	}
	return m
}

func c10SeqDoc(r *rand.Rand, depth int) *ref.V {
	s := &ref.V{K: ref.Seq, A: []*ref.V{}}
	n := r.IntN(5)
	allInt := r.IntN(3) != 0
	for i := 0; i < n; i++ {
		switch {
		case depth > 0 && r.IntN(8) == 0:
			s.A = append(s.A, c10SeqDoc(r, depth-1))
		case allInt:
			s.A = append(s.A, ref.IntV(int64(r.IntN(9)-2)))
		default:
			s.A = append(s.A, c10SmallScalar(r))
		}
	}
	return s
}

func c10SeqMapDoc(r *rand.Rand) *ref.V {
	s := &ref.V{K: ref.Seq, A: []*ref.V{}}
	n := r.IntN(5)
	for i := 0; i < n; i++ {
		m := &ref.V{K: ref.Map, M: []ref.KV{}}
		if r.IntN(8) != 0 {
			m.M = append(m.M, ref.KV{K: "x", V: ref.IntV(int64(r.IntN(5)))})
		}
		if r.IntN(2) == 0 {
			m.M = append(m.M, ref.KV{K: "a", V: c10SmallScalar(r)})
		}
		if r.IntN(4) == 0 {
			m.M = append([]ref.KV{{K: "b", V: c10SmallScalar(r)}}, m.M...)
		}
		s.A = append(s.A, m)
	}
	return s
}

// c10Doc returns the text of one plain document (JSON, read by the YAML decoder) of the shape;
// a fixed share deviates from the shape so that E fails or yields nothing on some documents.
func c10Doc(r *rand.Rand, shape string) (text, kind string) {
	if r.IntN(30) == 0 {
		shape = []string{"map", "seq", "seqmap", "any", "scalar"}[r.IntN(5)]
	}
	var v *ref.V
	switch shape {
	case "map":
		if r.IntN(6) == 0 {
			// flow YAML with an anchor and an alias (explode / merge targets); not JSON
			an := r.IntN(2) // few anchor names, reused across documents on purpose (the decoder keeps one anchor map per file)
			if r.IntN(2) == 0 {
				// an anchored map that is aliased and merged: the values differ from document to document
				return fmt.Sprintf("{\"a\": &n%d {\"img\": \"app:%d\", \"n\": %d}, \"b\": *n%d, \"c\": {\"<<\": *n%d, \"own\": %d}, \"x\": %d}", an, r.IntN(50), r.IntN(50), an, an, r.IntN(5), r.IntN(5)), "anchors"
			}
			return fmt.Sprintf("{\"a\": &n%d %d, \"b\": *n%d, \"x\": %d}", an, r.IntN(50), an, r.IntN(5)), "anchors"
		}
		v = c10MapDoc(r, 2)
	case "seq":
		v = c10SeqDoc(r, 2)
	case "seqmap":
		v = c10SeqMapDoc(r)
	case "scalar":
		v = c10SmallScalar(r)
	default:
		p := gen.Default()
		p.MaxDepth, p.MaxWidth = 3, 3
		v = gen.Value(r, p)
	}
	return v.JSON(), "json"
}

var c10NamePool = []string{"f%d.yaml", "in%d.yml", "data%d", "sub/d%d.yaml", "./g%d.yaml", "with space %d.yaml", "é%d.yml", "d%d.v2.yaml"}

func c10FileName(r *rand.Rand, i int) string {
	return fmt.Sprintf(c10NamePool[r.IntN(len(c10NamePool))], i)
}

// c10PlainFiles builds 1..4 files of 0..4 plain documents joined by "---\n".
// Features: empty file, file given twice, stdin, missing final newline.
func c10PlainFiles(r *rand.Rand, shape string, allowStdin bool) []c10File {
	nf := 1 + r.IntN(4)
	if r.IntN(3) == 0 {
		nf = 2 + r.IntN(2)
	}
	var files []c10File
	stdinUsed := false
	for i := 0; i < nf; i++ {
		f := c10File{Name: c10FileName(r, i)}
		nd := r.IntN(5)
		if r.IntN(3) != 0 && nd == 0 {
			nd = 1 + r.IntN(3)
		}
		// sometimes a file "stamped from one template": every document defines the same anchor names again
		stamped := shape == "map" && nd >= 2 && r.IntN(5) == 0
		for d := 0; d < nd; d++ {
			t, k := c10Doc(r, shape)
			for try := 0; stamped && k != "anchors" && try < 40; try++ {
				t, k = c10Doc(r, shape)
			}
			f.Docs = append(f.Docs, t+"\n")
			f.Kinds = append(f.Kinds, k)
		}
		if stamped {
			f.Feat = append(f.Feat, "anchors-redefined-per-document")
		}
		if nd > 0 && r.IntN(5) == 0 {
			// the last document of the file has no final newline
			f.Docs[nd-1] = strings.TrimSuffix(f.Docs[nd-1], "\n")
			f.Feat = append(f.Feat, "no-final-newline")
		}
		f.Text = strings.Join(f.Docs, "---\n")
		if nd == 0 {
			f.Feat = append(f.Feat, "empty-file")
		}
		if allowStdin && !stdinUsed && r.IntN(8) == 0 {
			f.Name = "-"
			stdinUsed = true
			f.Feat = append(f.Feat, "stdin")
		}
		files = append(files, f)
	}
	if len(files) >= 2 && r.IntN(8) == 0 {
		// the same file named twice
		src := files[r.IntN(len(files))]
		if src.Name != "-" {
			dup := src
			dup.Feat = append(append([]string{}, src.Feat...), "file-twice")
			files = append(files, dup)
		}
	}
	return files
}

func c10CountDocs(files []c10File) int {
	n := 0
	for _, f := range files {
		n += len(f.Docs)
	}
	return n
}

func c10FileTags(files []c10File) []string {
	nd := c10CountDocs(files)
	nds := fmt.Sprint(nd)
	if nd > 8 {
		nds = "9+"
	}
	tags := []string{fmt.Sprintf("files:%d", len(files)), "docs:" + nds}
	seen := map[string]bool{}
	for i, f := range files {
		for _, ft := range f.Feat {
			if !seen[ft] {
				seen[ft] = true
				tags = append(tags, "feat:"+ft)
			}
		}
		if len(f.Docs) == 0 && i > 0 && i < len(files)-1 && !seen["empty-file-between"] {
			seen["empty-file-between"] = true
			tags = append(tags, "feat:empty-file-between")
		}
		for _, k := range f.Kinds {
			if !seen["doc:"+k] {
				seen["doc:"+k] = true
				tags = append(tags, "doc:"+k)
			}
		}
	}
	return tags
}
