package props

import (
	"fmt"
	"math/rand/v2"
	"os"
	"path/filepath"
	"regexp"
	"sort"
	"strings"

	"verifharness/gen"
	"verifharness/mon"
	"verifharness/ref"
)

// C07 — an update leaves the presentation of everything it did not touch intact.
//
// Workload: documents of the C05 generator (own emitter; comments, styles, anchors, tags) x one update u
// addressed at a node / node set T the harness chooses (so T is known c07Without asking yq).
// Oracle: `yq u` and `yq .` are BOTH read back by yaml.v3 (so comment attachment is consistent) and must agree
//
//	table   on every row (kind, scalar text, resolved tag, explicit tag, scalar / collection style, anchor name,
//	        alias name, line comment, position among siblings) whose path lies outside T, after re-mapping
//	        sequence indices shifted by a delete;
//	stream  on the linearised comment stream with T's own leaves cut out: a gap between two surviving leaves
//	        that lost no T token must carry exactly the same comment lines; a gap that did lose T tokens must
//	        still carry, in order, every comment line that yaml.v3 had attached to a node outside T (and
//	        nothing that was not there before);
//	docs    document count, leading "---" and the number of "---" lines are the same.
type c07 struct{}

func init() { mon.Register(c07{}) }

func (c07) ID() string    { return "C07" }
func (c07) Level() string { return "exploration" }
func (c07) Rule() string {
	return "case = (generated commented/styled YAML document, update u with harness-chosen target set T); u in {p = scalar, p = {\"k\": [1, 2]}, del(p), p += [x], " +
		"p += {\"zz_new\": v}, p |= . + 1, p |= . + \"s\", p.zz_new = v, p.zz_new.sub = v, (p1, p2) = v, (.. | select(tag == \"!!int\")) |= . + 1 (1-2 documents)}. " +
		"`yq u` vs `yq .` (both in-process, both re-read by yaml.v3; real binary `yq u file` must print the in-process text for 1 case in 4): per-path table equal outside T " +
		"(after index re-mapping), linearised comment stream equal outside T, document count and '---' lines equal. T = target subtree (replace/update), the entry (delete), " +
		"the new element (append / key creation); a parent that was or becomes an empty collection may change block/flow. Non-trivial = T non-empty and the documents carry " +
		">= 1 comment or non-plain style outside T; distinct by hash of (shape, presentation plan, update kind). An update that only creates nodes (append, key creation, in a non-empty collection) " +
		"may not hand a comment of a node outside T over to the created node (not asserted at the end of the document and next to a value without text). " +
		"Comment-ownership family (1 case in 10): hand-maintained looking documents whose block sequences (top level, below maps, inside sequences; of scalars / maps / sequences; flow) carry head, line and " +
		"trailing (= foot of the last element) comments x elements added in 15 spellings (+= x, += [..], |= . + [..], = p + [..], = (p | . + [..]), += other sequence of the document, prepend, two appends, " +
		"two targets, with(), *+ merge, [.[], x], chains): the yaml.v3 per-path table (head / line / foot comment of key and value, kind, value, tag, style, anchor, position) of `yq .` and `yq u` is equal on every " +
		"node that is not an added element, the sequence grew by exactly the added elements, document comments equal, every line of `yq .` still there in order."
}
func (c07) Assumptions() []string {
	return []string{
		"`yq .` preserves the input (C05): cases where yq's `.` output does not re-read to the generator's ground truth are inconclusive here",
		"T's own presentation (style, comments and anchor of the replaced / updated node itself, comments yaml.v3 attached to deleted nodes) is not asserted",
		"targets are chosen so that no anchored node lies inside T (a dangling alias would not be a presentation question) and every map key on the path is a plain string key",
		"update expressions that yq rejects are inconclusive (C02/C03 decide whether an update must succeed)",
	}
}
func (c07) Cases(tier string) int {
	if tier == "thorough" {
		return 80000
	}
	return 10000
}
func (c07) RaceCases(tier string) int {
	if tier == "thorough" {
		return 4000
	}
	return 150
}
func (c07) Floor(tier string) int {
	if tier == "thorough" {
		return 20000
	}
	return 2500
}

// c07Target is one element of T.
type c07Target struct {
	P      []any // replaced / updated / deleted node (base coordinates); nil for pure creation
	New    []any // node created by the update (append, key creation)
	Delete bool
}

type c07Upd struct {
	Expr  string
	Kind  string
	T     [][]c07Target // per document
	Shape [][][]any     // per document: collections that were or become empty (block/flow may change)
}

var c07PoolKey = regexp.MustCompile(`^[a-z][a-z0-9_]*$`)

func c07Addressable(k *gen.YN) bool {
	if k.Tag != "!!str" || k.Value == "" {
		return false
	}
	return !strings.ContainsAny(k.Value, "*?\"\\")
}

func c07PathExpr(p []any) string {
	var b strings.Builder
	for _, s := range p {
		switch k := s.(type) {
		case string:
			if c07PoolKey.MatchString(k) && k != "true" && k != "false" && k != "null" {
				b.WriteString("." + k)
			} else {
				if b.Len() == 0 {
					b.WriteByte('.')
				}
				b.WriteString(`["` + k + `"]`)
			}
		case int:
			if b.Len() == 0 {
				b.WriteByte('.')
			}
			fmt.Fprintf(&b, "[%d]", k)
		}
	}
	if b.Len() == 0 {
		return "."
	}
	return b.String()
}

type c07Cand struct {
	p      []any
	n      *gen.YN
	parent *gen.YN
}

func c07HasAnchor(n *gen.YN) bool {
	found := false
	n.Walk(nil, func(_ []any, x *gen.YN) {
		if x.Anchor != "" {
			found = true
		}
	})
	return found
}

func c07HasKey(n *gen.YN, k string) bool {
	for _, x := range n.Keys {
		if x.Value == k {
			return true
		}
	}
	return false
}

// c07Candidates lists the addressable value nodes of a document.
func c07Candidates(root *gen.YN) []c07Cand {
	var out []c07Cand
	var rec func(n, parent *gen.YN, p []any)
	rec = func(n, parent *gen.YN, p []any) {
		out = append(out, c07Cand{p: p, n: n, parent: parent})
		switch n.Kind {
		case gen.YMap:
			for i, k := range n.Keys {
				if !c07Addressable(k) {
					continue
				}
				rec(n.Vals[i], n, append(append([]any{}, p...), k.Value))
			}
		case gen.YSeq:
			for i, v := range n.Items {
				rec(v, n, append(append([]any{}, p...), i))
			}
		}
	}
	rec(root, nil, nil)
	return out
}

func c07IsPrefix(a, b []any) bool {
	if len(a) > len(b) {
		return false
	}
	for i := range a {
		if a[i] != b[i] {
			return false
		}
	}
	return true
}

func c07ChildCount(n *gen.YN) int {
	if n.Kind == gen.YMap {
		return len(n.Keys)
	}
	return len(n.Items)
}

// c07GenUpdate chooses an update for the stream; ok=false when the documents offer no target.
func c07GenUpdate(r *rand.Rand, st *gen.YStream) (u c07Upd, ok bool) {
	nd := len(st.Docs)
	u.T = make([][]c07Target, nd)
	u.Shape = make([][][]any, nd)
	if nd > 1 {
		// only the selection update is total over arbitrary documents
		u.Kind = "select_ints"
		u.Expr = `(.. | select(tag == "!!int")) |= . + 1`
		n := 0
		for d, doc := range st.Docs {
			doc.Root.Walk(nil, func(p []any, x *gen.YN) {
				if x.Kind == gen.YScalar && x.Tag == "!!int" {
					u.T[d] = append(u.T[d], c07Target{P: p})
					n++
				}
			})
		}
		return u, n > 0
	}
	root := st.Docs[0].Root
	cands := c07Candidates(root)
	pick := func(f func(c c07Cand) bool) (c07Cand, bool) {
		var sel []c07Cand
		for _, c := range cands {
			if f(c) {
				sel = append(sel, c)
			}
		}
		if len(sel) == 0 {
			return c07Cand{}, false
		}
		return sel[r.IntN(len(sel))], true
	}
	replaceable := func(c c07Cand) bool { return c.parent != nil && !c07HasAnchor(c.n) }
	scalars := []string{"5", `"new"`, "true", "null", `"two words"`, "1.5"}
	kinds := []string{"set_scalar", "set_scalar", "set_subtree", "delete", "delete", "append_seq", "append_map", "incr_int", "append_str", "new_key", "new_key_deep", "multi_set", "select_ints"}
	for try := 0; try < 12; try++ {
		kind := kinds[r.IntN(len(kinds))]
		u.Kind = kind
		u.T[0], u.Shape[0] = nil, nil
		switch kind {
		case "set_scalar", "set_subtree":
			c, ok := pick(replaceable)
			if !ok {
				continue
			}
			rhs := scalars[r.IntN(len(scalars))]
			if kind == "set_subtree" {
				rhs = `{"k": [1, 2]}`
			}
			u.Expr = c07PathExpr(c.p) + " = " + rhs
			u.T[0] = []c07Target{{P: c.p}}
			return u, true
		case "delete":
			c, ok := pick(replaceable)
			if !ok {
				continue
			}
			u.Expr = "del(" + c07PathExpr(c.p) + ")"
			u.T[0] = []c07Target{{P: c.p, Delete: true}}
			if c07ChildCount(c.parent) == 1 {
				u.Shape[0] = append(u.Shape[0], c.p[:len(c.p)-1])
			}
			return u, true
		case "append_seq":
			c, ok := pick(func(c c07Cand) bool { return c.n.Kind == gen.YSeq })
			if !ok {
				continue
			}
			u.Expr = c07PathExpr(c.p) + ` += ["appended"]`
			u.T[0] = []c07Target{{New: append(append([]any{}, c.p...), len(c.n.Items))}}
			if len(c.n.Items) == 0 {
				u.Shape[0] = append(u.Shape[0], c.p)
			}
			return u, true
		case "append_map", "new_key", "new_key_deep":
			c, ok := pick(func(c c07Cand) bool { return c.n.Kind == gen.YMap && !c07HasKey(c.n, "zz_new") })
			if !ok {
				continue
			}
			switch kind {
			case "append_map":
				u.Expr = c07PathExpr(c.p) + ` += {"zz_new": 7}`
			case "new_key":
				u.Expr = strings.TrimSuffix(c07PathExpr(c.p), ".") + `.zz_new = "created"`
				if len(c.p) == 0 {
					u.Expr = `.zz_new = "created"`
				}
			default:
				u.Expr = strings.TrimSuffix(c07PathExpr(c.p), ".") + `.zz_new.sub = 3`
				if len(c.p) == 0 {
					u.Expr = `.zz_new.sub = 3`
				}
			}
			u.T[0] = []c07Target{{New: append(append([]any{}, c.p...), "zz_new")}}
			if len(c.n.Keys) == 0 {
				u.Shape[0] = append(u.Shape[0], c.p)
			}
			return u, true
		case "incr_int":
			c, ok := pick(func(c c07Cand) bool { return c.n.Kind == gen.YScalar && c.n.Tag == "!!int" })
			if !ok {
				continue
			}
			u.Expr = c07PathExpr(c.p) + " |= . + 1"
			u.T[0] = []c07Target{{P: c.p}}
			return u, true
		case "append_str":
			c, ok := pick(func(c c07Cand) bool { return c.n.Kind == gen.YScalar && c.n.Tag == "!!str" && c.parent != nil })
			if !ok {
				continue
			}
			u.Expr = c07PathExpr(c.p) + ` |= . + "s"`
			u.T[0] = []c07Target{{P: c.p}}
			return u, true
		case "multi_set":
			a, ok := pick(replaceable)
			if !ok {
				continue
			}
			b, ok := pick(func(c c07Cand) bool { return replaceable(c) && !c07IsPrefix(a.p, c.p) && !c07IsPrefix(c.p, a.p) })
			if !ok {
				continue
			}
			u.Expr = "(" + c07PathExpr(a.p) + ", " + c07PathExpr(b.p) + ") = " + scalars[r.IntN(len(scalars))]
			u.T[0] = []c07Target{{P: a.p}, {P: b.p}}
			return u, true
		case "select_ints":
			u.Expr = `(.. | select(tag == "!!int")) |= . + 1`
			root.Walk(nil, func(p []any, x *gen.YN) {
				if x.Kind == gen.YScalar && x.Tag == "!!int" {
					u.T[0] = append(u.T[0], c07Target{P: p})
				}
			})
			if len(u.T[0]) > 0 {
				return u, true
			}
		}
	}
	return u, false
}

// c07Doc compares one document of `yq .` (b) with the same document of `yq u` (x).
type c07Cmp struct {
	T     []c07Target
	Shape [][]any
	zero  map[string]bool // `yq .`: paths whose value is an empty plain scalar (no text of its own)
}

// remap converts a path of the update side into base coordinates (sequence indices after a delete).
func (c *c07Cmp) remap(p []any) []any {
	for _, t := range c.T {
		if !t.Delete {
			continue
		}
		n := len(t.P)
		i, isInt := t.P[n-1].(int)
		if !isInt || len(p) < n || !c07IsPrefix(t.P[:n-1], p) {
			continue
		}
		if j, ok := p[n-1].(int); ok && j >= i {
			q := append([]any{}, p...)
			q[n-1] = j + 1
			return q
		}
	}
	return p
}

// inT: does the node (path, key?) belong to T? side "b" = base coordinates of `yq .`, "u" = `yq u` (already re-mapped).
func (c *c07Cmp) inT(p []any, key bool, side string) bool {
	for _, t := range c.T {
		if t.P != nil && c07IsPrefix(t.P, p) {
			if side == "u" && t.Delete {
				continue // deleted nodes do not exist on the update side; an equal path is a shifted sibling
			}
			if len(p) == len(t.P) && key && !t.Delete {
				continue // the key of a replaced value is not touched
			}
			return true
		}
		if side == "u" && t.New != nil && c07IsPrefix(t.New, p) {
			return true
		}
	}
	return false
}

// onlyCreates: T consists of created nodes only (append, key creation) in collections that were not empty.
func (c *c07Cmp) onlyCreates() bool {
	for _, t := range c.T {
		if t.P != nil || t.New == nil {
			return false
		}
	}
	// (a collection that was empty changes between flow and block: where the reader hangs the comments around it
	// changes with it)
	return len(c.T) > 0 && len(c.Shape) == 0
}

func (c *c07Cmp) shape(p []any) bool {
	for _, s := range c.Shape {
		if len(s) == len(p) && c07IsPrefix(s, p) {
			return true
		}
	}
	return false
}

// valueIsTarget: p is exactly a replaced/updated target (its key's line comment may move with the value).
func (c *c07Cmp) valueIsTarget(p []any) bool {
	for _, t := range c.T {
		if t.P != nil && !t.Delete && len(t.P) == len(p) && c07IsPrefix(t.P, p) {
			return true
		}
	}
	return false
}

func c07Subseq(small, big []string) bool {
	j := 0
	for _, s := range small {
		for j < len(big) && big[j] != s {
			j++
		}
		if j == len(big) {
			return false
		}
		j++
	}
	return true
}

type c07Gap struct {
	before   string // leaf after the gap (base coordinates)
	all      []string
	mustKeep []string
	touched  bool
	weak     bool // a kept comment hangs on an entry whose value has no text: which neighbour owns it is the reader's guess
}

func (c *c07Cmp) gaps(s []ref.YTok, side string) []c07Gap {
	var out []c07Gap
	cur := c07Gap{}
	for _, t := range s {
		p := t.P
		if side == "u" {
			p = c.remap(p)
		}
		if t.C {
			cur.all = append(cur.all, t.Text)
			switch {
			case t.Doc && cur.touched && side == "b":
				// a document foot comment right after a deleted / replaced LAST entry: whether it is the
				// document's or the entry's foot comment is a guess of the parser (yq reads the text c07Without
				// its leading comment lines and may guess differently): not asserted
			case t.Doc || !c.inT(p, t.Key, side):
				cur.mustKeep = append(cur.mustKeep, t.Text)
				if !t.Doc && c.zero[ref.YPath(p)] {
					cur.weak = true
				}
			default:
				cur.touched = true
			}
			continue
		}
		if c.inT(p, t.Key, side) || !t.Key && c.shape(p) {
			cur.touched = true
			continue
		}
		name := ref.YPath(p)
		if t.Key {
			name += "@key"
		}
		cur.before = name
		out = append(out, cur)
		cur = c07Gap{}
	}
	cur.before = "$"
	return append(out, cur)
}

// c07Fail is one failed assertion. Comment failures carry their operands for the finding matcher.
type c07Fail struct {
	Msg      string
	LineAttr bool       // an entry / item line comment differs
	Shape    bool       // … on a collection that was / became empty (outside T)
	A, U     string     // `yq .` value, `yq u` value
	Gap      *[2]c07Gap // a comment gap differs: {`yq .`, `yq u`}
}

func c07Without(xs []string, drop map[string]bool) []string {
	var out []string
	for _, x := range xs {
		if !drop[x] {
			out = append(out, x)
		}
	}
	return out
}

// c07OnlyMigrantsDiffer: big = small + at least one extra line, every extra line being a migrant comment.
func c07OnlyMigrantsDiffer(small, big string, migrants map[string]bool) bool {
	var sl, bl []string
	if small != "" {
		sl = strings.Split(small, "\n")
	}
	if big != "" {
		bl = strings.Split(big, "\n")
	}
	// the migrant may also land on the very line of the next comment: yaml.v3 then reads "<migrant> <own comment>"
	if len(sl) == len(bl) && len(sl) > 0 {
		joined, same := 0, true
		for i := range sl {
			if sl[i] == bl[i] {
				continue
			}
			hit := false
			for m := range migrants {
				if m != "" && !strings.Contains(m, "\n") && bl[i] == m+" "+sl[i] {
					hit = true
				}
			}
			if !hit {
				same = false
				break
			}
			joined++
		}
		if same && joined > 0 {
			return true
		}
	}
	extra := 0
	j := 0
	for _, ln := range bl {
		if j < len(sl) && sl[j] == ln {
			j++
			continue
		}
		if !migrants[ln] {
			return false
		}
		extra++
	}
	return j == len(sl) && extra > 0
}

// c07GapOK is the assertion on one gap.
func c07GapOK(b, u c07Gap) bool {
	if !b.touched && !u.touched {
		return c05EqStrs(b.all, u.all)
	}
	return c07Subseq(b.mustKeep, u.all) && c07Subseq(u.all, b.all)
}

// c07GapOKWithout: does the gap pass once the given comment lines are ignored on both sides (and at least one of them occurs)?
func c07GapOKWithout(b, u c07Gap, drop map[string]bool) bool {
	b2 := c07Gap{all: c07Without(b.all, drop), mustKeep: c07Without(b.mustKeep, drop), touched: b.touched}
	u2 := c07Gap{all: c07Without(u.all, drop), touched: u.touched}
	if len(b2.all) == len(b.all) && len(u2.all) == len(u.all) {
		return false
	}
	return c07GapOK(b2, u2)
}

// c07EntryLines merges, for map entries, the line comment of the key and of the value: yaml.v3 attaches the
// comment of "k: # c" to the key when a block collection follows and to the value otherwise, so a value that
// changes between scalar / flow and block moves the SAME comment between the two nodes.
func c07EntryLines(rows []ref.YRow) (line []string, merged []bool) {
	line = make([]string, len(rows))
	merged = make([]bool, len(rows))
	for i, r := range rows {
		line[i] = r.Line
	}
	for i, r := range rows {
		if r.IsKey && i+1 < len(rows) && !rows[i+1].IsKey && ref.YPath(rows[i+1].P) == ref.YPath(r.P) {
			line[i] = strings.TrimSpace(r.Line + " " + rows[i+1].Line)
			merged[i+1] = true
		}
	}
	return
}

func (c *c07Cmp) compare(d int, b, x ref.YDoc) (fails []c07Fail) {
	add := func(format string, a ...any) { fails = append(fails, c07Fail{Msg: fmt.Sprintf(format, a...)}) }
	// ---- table
	type rr struct {
		r      ref.YRow
		p      []any
		line   string
		merged bool
	}
	var lb, lu []rr
	bl, bm := c07EntryLines(b.Rows)
	for i, r := range b.Rows {
		if !c.inT(r.P, r.IsKey, "b") {
			lb = append(lb, rr{r, r.P, bl[i], bm[i]})
		}
	}
	ul, um := c07EntryLines(x.Rows)
	for i, r := range x.Rows {
		p := c.remap(r.P)
		if !c.inT(p, r.IsKey, "u") {
			lu = append(lu, rr{r, p, ul[i], um[i]})
		}
	}
	if len(lb) != len(lu) {
		add("doc %d: %d nodes outside T before, %d after the update", d, len(lb), len(lu))
	}
	for i := 0; i < len(lb) && i < len(lu); i++ {
		a, u := lb[i], lu[i]
		pa, pu := ref.YPath(a.p), ref.YPath(u.p)
		if pa != pu || a.r.IsKey != u.r.IsKey {
			add("doc %d: node #%d outside T is %s (key=%v) in `yq .` but %s (key=%v) after the update: siblings reordered or lost", d, i, pa, a.r.IsKey, pu, u.r.IsKey)
			break
		}
		name := pa
		if a.r.IsKey {
			name += "@key"
		}
		isShape := c.shape(a.p) // the collection itself, or (for the line comment) its key
		chk := func(attr, va, vu string) {
			if va != vu {
				fails = append(fails, c07Fail{Msg: fmt.Sprintf("doc %d %s: %s %q in `yq .`, %q after the update", d, name, attr, va, vu),
					LineAttr: attr == "line comment", Shape: isShape, A: va, U: vu})
			}
		}
		chk("kind", a.r.Kind, u.r.Kind)
		chk("value", a.r.Value, u.r.Value)
		chk("tag", a.r.Tag, u.r.Tag)
		chk("anchor", a.r.Anchor, u.r.Anchor)
		if !(isShape && !a.r.IsKey) {
			// a collection that was or becomes empty takes the style of the other side (UpdateFrom); the
			// "explicit tag" flag is part of yaml.v3's style word
			chk("style", a.r.Style, u.r.Style)
			chk("explicit tag", fmt.Sprint(a.r.Explicit), fmt.Sprint(u.r.Explicit))
		}
		switch {
		case a.merged && u.merged: // carried by the key row
		case a.r.IsKey && c.valueIsTarget(a.p): // the value's own line comment belongs to T
		default:
			chk("line comment", a.line, u.line)
		}
	}
	// ---- stream
	c.zero = map[string]bool{}
	for _, r := range b.Rows {
		if !r.IsKey && r.Kind == "scalar" && r.Value == "" && r.Style == "plain" {
			c.zero[ref.YPath(r.P)] = true
		}
	}
	gb, gu := c.gaps(b.Stream, "b"), c.gaps(x.Stream, "u")
	if len(gb) != len(gu) {
		if len(fails) == 0 {
			add("doc %d: %d leaves outside T before, %d after the update", d, len(gb)-1, len(gu)-1)
		}
		return fails
	}
	for k := range gb {
		if gb[k].before != gu[k].before {
			if len(fails) == 0 {
				add("doc %d: leaf order outside T differs: %s vs %s", d, gb[k].before, gu[k].before)
			}
			return fails
		}
		// an update that only creates nodes (append, key creation): a comment that hangs on a node outside T in
		// `yq .` must still hang on a node outside T afterwards (it may not be handed to the new node)
		// (not asserted at the very end of the document, where the comment may as well be the document's, and next to
		// a value without text)
		handedOver := c.onlyCreates() && gb[k].before != "$" && !gb[k].weak && !c07Subseq(gb[k].mustKeep, gu[k].mustKeep)
		if c07GapOK(gb[k], gu[k]) && !handedOver {
			continue
		}
		var msg string
		switch {
		case handedOver && c07GapOK(gb[k], gu[k]):
			msg = fmt.Sprintf("doc %d: comments before %s that belong to nodes outside T: `yq .` %q, after the update only %q belong to nodes outside T (the others hang on the nodes the update created)", d, gb[k].before, gb[k].mustKeep, gu[k].mustKeep)
		case !gb[k].touched && !gu[k].touched:
			msg = fmt.Sprintf("doc %d: comments before %s (gap not touched by T): `yq .` %q, after the update %q", d, gb[k].before, gb[k].all, gu[k].all)
		case !c07Subseq(gb[k].mustKeep, gu[k].all):
			msg = fmt.Sprintf("doc %d: comments before %s that belong to nodes outside T: `yq .` %q, after the update only %q", d, gb[k].before, gb[k].mustKeep, gu[k].all)
		default:
			msg = fmt.Sprintf("doc %d: comments before %s: the update introduced or reordered comments: `yq .` %q, after the update %q", d, gb[k].before, gb[k].all, gu[k].all)
		}
		fails = append(fails, c07Fail{Msg: msg, Gap: &[2]c07Gap{gb[k], gu[k]}})
	}
	return fails
}

var c07CommentStart = regexp.MustCompile(` #`)

// c07RepairFlowAfterComment undoes one emitter defect: a flow collection (or the anchor / tag of a block
// collection) whose "key:" / "-" indicator is followed by a comment - on the same line or on own lines - is
// written at column 0 after the comment. The repair moves it back onto the indicator's line, in front of the
// indicator's own comment; own-line comments in between move above that line (same place between the leaves).
func c07RepairFlowAfterComment(text string) (string, bool) {
	lines := strings.Split(text, "\n")
	changed := false
	opensValue := func(pre string) bool {
		t := strings.TrimSpace(pre)
		if t == "" {
			return false
		}
		last := t
		if k := strings.LastIndexByte(t, ' '); k >= 0 {
			last = t[k+1:]
		}
		return strings.HasSuffix(t, ":") && t != "---" || last == "-" && t != "---" || (strings.HasPrefix(last, "&") || strings.HasPrefix(last, "!")) && strings.ContainsAny(t, ":-")
	}
	for i := 1; i < len(lines); i++ {
		nx := lines[i]
		if nx == "" || !strings.ContainsRune("{[&!", rune(nx[0])) {
			continue
		}
		j := i - 1
		for j >= 0 {
			t := strings.TrimSpace(lines[j])
			if t == "" || strings.HasPrefix(t, "#") {
				j--
				continue
			}
			break
		}
		if j < 0 {
			continue
		}
		ln := lines[j]
		pre, cm, found := "", "", false
		if opensValue(ln) {
			pre, found = strings.TrimRight(ln, " "), true
		} else {
			for _, m := range c07CommentStart.FindAllStringIndex(ln, -1) {
				if opensValue(ln[:m[0]]) {
					pre, cm, found = strings.TrimRight(ln[:m[0]], " "), ln[m[0]:], true
					break
				}
			}
		}
		if !found {
			continue
		}
		var out []string
		out = append(out, lines[:j]...)
		out = append(out, lines[j+1:i]...)
		if cm != "" && strings.Contains(nx, " #") {
			// the value's line has a comment of its own: the indicator's comment goes on a line above
			ind := len(pre) - len(strings.TrimLeft(pre, " "))
			out = append(out, strings.Repeat(" ", ind)+strings.TrimSpace(cm))
			cm = ""
		}
		out = append(out, pre+" "+nx+cm)
		out = append(out, lines[i+1:]...)
		lines = out
		changed = true
	}
	return strings.Join(lines, "\n"), changed
}

// outsideFeature: does the base output carry a comment or a non-plain style outside T?
func (c *c07Cmp) outsideFeature(b ref.YDoc) bool {
	for _, r := range b.Rows {
		if c.inT(r.P, r.IsKey, "b") {
			continue
		}
		if r.Line != "" || r.Anchor != "" || r.Explicit || r.Kind == "scalar" && r.Style != "plain" || r.Kind != "scalar" && r.Style == "flow" && r.Len > 0 {
			return true
		}
	}
	for _, t := range b.Stream {
		if t.C && (t.Doc || !c.inT(t.P, t.Key, "b")) {
			return true
		}
	}
	return false
}

func (p c07) Run(w *mon.Worker, idx int) mon.Result {
	r := w.Rand(idx)
	if idx%5 == 4 {
		return c07LineCase(w, r)
	}
	if idx%10 == 7 {
		return c07FootCase(w, r)
	}
	o := gen.YDefault()
	o.NoTaggedEmpty = true // (comment ownership around empty tagged scalars is yaml.v3's own business: C05 has them)
	o.RootScalars, o.EmptyDocs = false, false
	o.MaxDocs = 1
	if r.IntN(8) == 0 {
		o.MaxDocs = 2
	}
	st := gen.GenYAML(r, o)
	feats := st.Features()
	tags := map[string]bool{}
	for _, f := range feats {
		tags[f] = true
	}
	res := mon.Result{}
	finish := func() mon.Result {
		for t := range tags {
			res.Tags = append(res.Tags, t)
		}
		sort.Strings(res.Tags)
		return res
	}
	u, ok := c07GenUpdate(r, st)
	res.Case = map[string]any{"text": st.Text, "update": u.Expr, "kind": u.Kind}
	if !ok {
		res.Verdict, res.Detail = mon.Inconclusive, "no target for an update in this document"
		tags["no_target"] = true
		return finish()
	}
	tags["update:"+u.Kind] = true
	// ---- ground truth vs the independent reader
	var truth []ref.YDoc
	for _, d := range st.Docs {
		truth = append(truth, ref.ExtractNode(d.Node()))
	}
	in, perr := ref.ExtractYAML(st.Text)
	if perr != nil || c05TruthDisagreement(truth, in) != "" {
		res.Verdict, res.Detail = mon.Inconclusive, "generator disagreement"
		if perr != nil {
			res.Detail += ": " + perr.Error()
		} else {
			res.Detail += ": " + c05TruthDisagreement(truth, in)
		}
		tags["generator_disagreement"] = true
		return finish()
	}
	// ---- yq . and yq u
	base, err, pan := c05YqYAML(".", st.Text, true)
	res.Evals++
	if pan != nil || err != nil {
		res.Verdict, res.Detail = mon.Inconclusive, fmt.Sprintf("`yq .` fails on the document (C05's business): err=%v panic=%v", err, pan)
		tags["base_failed"] = true
		return finish()
	}
	bd, perr := ref.ExtractYAML(base)
	if perr != nil || len(bd) != len(truth) {
		res.Verdict, res.Detail = mon.Inconclusive, "`yq .` output does not re-read to the input's documents (C05's business)"
		tags["base_differs"] = true
		return finish()
	}
	for d := range bd {
		if bd[d].Data != truth[d].Data {
			res.Verdict, res.Detail = mon.Inconclusive, "`yq .` output does not re-read to the input's data (C05's business)"
			tags["base_differs"] = true
			return finish()
		}
	}
	upd, err, pan := c05YqYAML(u.Expr, st.Text, true)
	res.Evals++
	if pan != nil {
		res.Verdict = mon.Violated
		res.Detail = fmt.Sprintf("yq panicked on %s: %s\n%s", u.Expr, pan.Value, clipStr(pan.Stack, 1200))
		return finish()
	}
	if err != nil {
		res.Verdict, res.Detail = mon.Inconclusive, fmt.Sprintf("yq rejects the update %s: %v", u.Expr, err)
		tags["update_error"] = true
		return finish()
	}
	show := func() string {
		return fmt.Sprintf("--- update\n%s\n--- yq .\n%s\n--- yq u\n%s", u.Expr, clipStr(base, 1500), clipStr(upd, 1500))
	}
	ud, perr := ref.ExtractYAML(upd)
	unparseable := ""
	if perr != nil {
		// one known emitter defect makes the output unreadable; undo it in the text and judge the rest
		if fixed, changed := c07RepairFlowAfterComment(upd); changed {
			if fd, ferr := ref.ExtractYAML(fixed); ferr == nil {
				unparseable = perr.Error()
				ud, perr = fd, nil
			}
		}
	}
	if perr != nil {
		res.Verdict = mon.Violated
		res.Detail = "the output of the update is not readable by yaml.v3: " + perr.Error() + "\n" + show()
		return finish()
	}
	if c05LostComments(base, bd) || c05LostComments(upd, ud) && unparseable == "" {
		res.Verdict, res.Detail = mon.Inconclusive, "yaml.v3 drops an own-line comment when reading yq's output back: the reader cannot referee this case"
		tags["reader_lost_comment"] = true
		return finish()
	}
	var fails []c07Fail
	if len(ud) != len(bd) {
		fails = append(fails, c07Fail{Msg: fmt.Sprintf("documents: `yq .` %d, after the update %d", len(bd), len(ud))})
	}
	if a, b := ref.LeadingSeparator(base), ref.LeadingSeparator(upd); a != b {
		fails = append(fails, c07Fail{Msg: fmt.Sprintf("leading '---': `yq .` %v, after the update %v", a, b)})
	}
	sa, _ := ref.SeparatorLines(base)
	sb, _ := ref.SeparatorLines(upd)
	if sa != sb {
		fails = append(fails, c07Fail{Msg: fmt.Sprintf("'---' lines: `yq .` %d, after the update %d", sa, sb)})
	}
	nT, outside := 0, false
	// line comments that sit on a node which the update turns into a block collection: the replaced target
	// itself, or a collection that was empty (its own line comment is outside T)
	migrants := map[string]bool{}
	for d := 0; d < len(bd) && d < len(ud); d++ {
		c := &c07Cmp{T: u.T[d], Shape: u.Shape[d]}
		nT += len(c.T)
		outside = outside || c.outsideFeature(bd[d])
		fails = append(fails, c.compare(d, bd[d], ud[d])...)
		bl, _ := c07EntryLines(bd[d].Rows)
		for i, r := range bd[d].Rows {
			if c.valueIsTarget(r.P) || c.shape(r.P) {
				for _, m := range []string{bl[i], r.Line} {
					if m != "" {
						migrants[m] = true
						for _, ln := range strings.Split(m, "\n") {
							migrants[ln] = true
						}
					}
				}
			}
		}
		for _, t := range bd[d].Stream {
			// head / foot comments yaml.v3 attached to the restyled node itself
			if t.C && !t.Doc && !t.Key && (c.valueIsTarget(t.P) || c.shape(t.P)) {
				migrants[t.Text] = true
			}
		}
	}
	res.Sig = c05PlanSig(in) + "|" + u.Kind
	res.Nontrivial = nT > 0 && outside
	if upd == base {
		tags["update_was_noop"] = true
	}
	// ---- the real binary must print the in-process text
	if len(fails) == 0 && idx%4 == 0 {
		dir := filepath.Join(w.Scratch, fmt.Sprintf("c07-%d", idx))
		_ = os.MkdirAll(dir, 0o755)
		defer os.RemoveAll(dir)
		f := filepath.Join(dir, "in.yaml")
		_ = os.WriteFile(f, []byte(st.Text), 0o644)
		br := mon.Run(mon.RunOpts{Dir: dir}, w.YqBin(), "--expression", u.Expr, f)
		res.Evals++
		tags["binary:file"] = true
		if br.TimedOut || br.Exit == -2 {
			res.Verdict, res.Detail = mon.Inconclusive, "binary timed out / could not be run: "+clipStr(string(br.Stderr), 200)
			return finish()
		}
		if br.Exit != 0 || string(br.Stdout) != upd {
			res.Verdict = mon.Violated
			res.Detail = fmt.Sprintf("`yq '%s' file` (exit %d, stderr %q) and the library entry point disagree:\n--- binary\n%s\n--- library\n%s", u.Expr, br.Exit, clipStr(string(br.Stderr), 300), clipStr(string(br.Stdout), 1200), clipStr(upd, 1200))
			return finish()
		}
	}
	if len(fails) == 0 && unparseable == "" {
		res.Verdict = mon.Held
		res.Detail = fmt.Sprintf("%s: |T|=%d, %d rows and %d comment lines outside T unchanged", u.Expr, nT, c05RowCount(bd), len(c05CommentLinesOfText(base)))
		return finish()
	}
	var msgs []string
	if unparseable != "" {
		msgs = append(msgs, "the output of the update is not readable by yaml.v3 ("+unparseable+"); after moving the flow collection back in front of the comment:")
	}
	explained := true
	for i, f := range fails {
		if i < 6 {
			msgs = append(msgs, f.Msg)
		}
		// C07-comment-of-restyled-node-migrates: the only differences are comments that `yq .` shows on a node the
		// update turned into a block collection (a replaced value, or an empty collection that received its first
		// child / a collection that lost its last one): the comment is dropped from that node (when the node is
		// outside T) and / or re-appears, unchanged, further down: as the line comment of the following node or
		// as an own-line comment in a later gap.
		ok := false
		switch {
		case f.LineAttr && f.Shape:
			ok = c07OnlyMigrantsDiffer(f.U, f.A, migrants) // the restyled node lost it
		case f.LineAttr:
			ok = c07OnlyMigrantsDiffer(f.A, f.U, migrants) // a later node gained it
		case f.Gap != nil:
			ok = c07GapOKWithout(f.Gap[0], f.Gap[1], migrants)
		}
		explained = explained && ok
	}
	if len(fails) > 6 {
		msgs = append(msgs, fmt.Sprintf("… %d more", len(fails)-6))
	}
	res.Detail = strings.Join(msgs, "\n") + "\n" + show()
	switch {
	case explained && unparseable != "":
		res.Verdict, res.FindingID = mon.Finding, "C07-flow-collection-after-comment-unparseable"
		tags["finding:flow-collection-after-comment-unparseable"] = true
	case explained:
		res.Verdict, res.FindingID = mon.Finding, "C07-comment-of-restyled-node-migrates"
		tags["finding:comment-of-restyled-node-migrates"] = true
	default:
		res.Verdict = mon.Violated
	}
	return finish()
}
