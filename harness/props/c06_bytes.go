package props

import (
	"encoding/json"
	"fmt"
	"os"
	"path/filepath"
	"strings"
	"unicode/utf8"

	"verifharness/mon"
	"verifharness/yqx"
)

// c06ByteStrings: strings whose bytes are not valid UTF-8 cannot come in through the YAML or JSON readers, but the
// decoding operators (@urid, @base64d) produce them. JSON text is UTF-8 by definition: whatever the JSON encoder does
// with such a string (it substitutes U+FFFD), its output is valid UTF-8 and valid JSON — as a value and as a key, at the
// top level and nested, through -o=json and through to_json.
// c06NulSeparated: top-level strings printed raw and NUL separated (-0 with scalar unwrapping): every string comes out
// exactly, the line feeds and carriage returns it ends in included, followed by one NUL.
func c06NulSeparated(w *mon.Worker, idx int) mon.Result {
	r := w.Rand(idx)
	res := mon.Result{Tags: []string{"sub:bytes", "mode:nul-separated"}, Nontrivial: true}
	n := 2 + r.IntN(4)
	var strs []string
	var js []string
	for i := 0; i < n; i++ {
		s := []string{"a", "two words", "literal block", "é", "x:y", "-"}[r.IntN(6)] + []string{"", "\n", "\n\n", "\r\n", "\n \n", " ", "\t\n"}[r.IntN(7)]
		strs = append(strs, s)
		b, _ := json.Marshal(s)
		js = append(js, string(b))
	}
	text := "[" + strings.Join(js, ", ") + "]\n"
	dir := filepath.Join(w.Scratch, fmt.Sprintf("c06nul-%d", idx))
	_ = os.MkdirAll(dir, 0o755)
	defer os.RemoveAll(dir)
	f := filepath.Join(dir, "in.json")
	_ = os.WriteFile(f, []byte(text), 0o644)
	flags := [][]string{{"-0", "-r", "-o=json"}, {"-0", "-o=yaml"}, {"-0", "-r", "-o=json", "-I0"}, {"-0", "-o=props"}}[r.IntN(4)]
	res.Case = map[string]any{"doc": text, "flags": flags, "mode": "nul-separated"}
	res.Sig = fmt.Sprintf("nulsep|%v|%x", flags, hashStr(text))
	x := mon.Run(mon.RunOpts{Dir: dir}, append(append([]string{w.YqBin()}, flags...), ".[]", f)...)
	res.Evals++
	if x.TimedOut {
		res.Verdict, res.Detail = mon.Inconclusive, "binary timed out"
		return res
	}
	want := strings.Join(strs, "\x00") + "\x00"
	if x.Exit != 0 || string(x.Stdout) != want {
		res.Verdict = mon.Violated
		res.Detail = fmt.Sprintf("yq %v '.[]' (exit %d) prints %q; the strings are %q, each followed by one NUL: %q", flags, x.Exit, clipStr(string(x.Stdout), 300), strs, clipStr(want, 300))
		return res
	}
	res.Verdict, res.Detail = mon.Held, fmt.Sprintf("%d strings exact", n)
	return res
}

func c06ByteStrings(w *mon.Worker, idx int) mon.Result {
	if idx%120 == 119 && !w.Race {
		return c06NulSeparated(w, idx)
	}
	r := w.Rand(idx)
	src := []string{`"caf%E9" | @urid`, `"%ff%fe" | @urid`, `"/w==" | @base64d`, `"gICA" | @base64d`, `"a%C3" | @urid`, `"%ED%A0%80" | @urid`, `"ok%20" | @urid`}[r.IntN(7)]
	expr := []string{src, `{"k": (` + src + `)}`, `[1, (` + src + `)]`, `{(` + src + `): 1}`, `(` + src + `) | to_json`, `{"k": (` + src + `)} | to_json(0)`, `[(` + src + `)] | @json`}[r.IntN(7)]
	res := mon.Result{Tags: []string{"sub:bytes", "mode:byte-strings"}, Case: map[string]any{"expr": expr, "mode": "byte-strings"}, Nontrivial: !strings.Contains(src, "ok%20")}
	res.Sig = fmt.Sprintf("bytes|%s", expr)
	ind := 2
	out, err, pan := yqx.Eval(expr, "null\n", "yaml", "json")
	res.Evals++
	if pan != nil {
		res.Verdict, res.Detail = mon.Violated, fmt.Sprintf("`%s` with -o=json panicked: %v", expr, pan)
		return res
	}
	if err != nil {
		// refusing such a string is an answer too
		res.Verdict, res.Detail = mon.Held, "refused: "+err.Error()
		res.Tags = append(res.Tags, "refused")
		return res
	}
	if !utf8.ValidString(out) {
		res.Verdict, res.Detail = mon.Violated, fmt.Sprintf("`%s` with -o=json -I%d prints bytes that are not UTF-8: %q", expr, ind, clipStr(out, 200))
		return res
	}
	dec := json.NewDecoder(strings.NewReader(out))
	var v any
	if derr := dec.Decode(&v); derr != nil {
		res.Verdict, res.Detail = mon.Violated, fmt.Sprintf("`%s` with -o=json -I%d prints text that is not JSON (%v): %q", expr, ind, derr, clipStr(out, 200))
		return res
	}
	// to_json / @json results are JSON strings holding JSON text: that inner text is UTF-8 and JSON as well
	if s, isStr := v.(string); isStr && (strings.Contains(expr, "to_json") || strings.Contains(expr, "@json")) {
		var inner any
		if !utf8.ValidString(s) || json.Unmarshal([]byte(s), &inner) != nil {
			res.Verdict, res.Detail = mon.Violated, fmt.Sprintf("`%s`: the text produced by the in-expression JSON encoder is not valid JSON / UTF-8: %q", expr, clipStr(s, 200))
			return res
		}
	}
	res.Verdict, res.Detail = mon.Held, "valid UTF-8, valid JSON: "+clipStr(strings.TrimSpace(out), 80)
	return res
}
