package props

import (
	"fmt"
	"math/rand/v2"
	"strings"

	"verifharness/mon"
	"verifharness/ref"
)

// C15 family "multikey": sort_by(f) where f yields SEVERAL sort keys per element.
//
// The sort key of an element is the tuple of ALL results of f, in the order f yields them; tuples compare
// lexicographically under the one total preorder, equal tuples keep their input order. The family writes f in
// the ways a key tuple can be spelled (a flat union of 1-5 paths, the same union parenthesised by hand either
// way, a union behind a pipe, a collected sequence splatted, a splat over a per-element key sequence) and lets
// the sorted container be a top-level sequence, a sequence under a path (|=), or a map (its values are sorted).
// Columns have few distinct values, so that ties on every proper prefix of the tuple are the rule and a later
// key has to decide.
//
// Oracle (none of it is yq code): (1) the tuples are the generator's own, the expected order is ref.SortBy
// (stable, lexicographic, ref.Cmp); (2) the same for a shuffled arrangement of the same elements; (3) the
// least-significant-key-first law between runs of ONE-key sorts: sort_by(kN) | ... | sort_by(k1) == sort_by(k1, ..., kN)
// (a stable sort composes that way); and every output element is the unchanged input element of that id.
// Every element has every key (an absent key is a different matter: no sort key at all, see DESIGN §9), explicit
// nulls are ordinary values.

var c15KeyNames = []string{"a", "b", "c", "d", "e", "k", "x", "y", "w", "name", "prio", "z9"}

// a column pool: 1..max distinct values on which ref.Cmp is an exact total preorder (a tie under the reference
// is a tie of the same number/value: 1, 1.0, 0x1 may meet, 2^53+1 and 9007199254740992.0 may not)
func c15Column(r *rand.Rand, want int) []c15El {
	var pool []c15El
	for tries := 0; len(pool) < want && tries < 40; tries++ {
		e := c15Elem(r)
		ok := true
		for _, p := range pool {
			c, err := ref.Cmp(p.v, e.v)
			if err != nil || (c == 0 && c15Key(p.v) != c15Key(e.v)) {
				ok = false
				break
			}
			if c == 0 && p.yaml == e.yaml {
				ok = false // the same spelling again adds nothing
				break
			}
		}
		if ok {
			pool = append(pool, e)
		}
	}
	return pool
}

type c15Row struct {
	id   int
	keys []c15El
}

// the element of one row as YAML text and as a reference value, in the given shape
func c15RowText(r *rand.Rand, shape string, names []string, row c15Row) (string, *ref.V) {
	var parts []string
	var kvs []ref.KV
	for i, nm := range names {
		parts = append(parts, fmt.Sprintf("%s: %s", nm, row.keys[i].yaml))
		kvs = append(kvs, ref.KV{K: nm, V: row.keys[i].v})
	}
	idText, idKV := fmt.Sprintf("id: %d", row.id), ref.KV{K: "id", V: ref.IntV(int64(row.id))}
	switch shape {
	case "nested":
		inner := "{" + strings.Join(parts, ", ") + "}"
		if r.IntN(2) == 0 {
			return "{n: " + inner + ", " + idText + "}", ref.MapV(ref.KV{K: "n", V: ref.MapV(kvs...)}, idKV)
		}
		return "{" + idText + ", n: " + inner + "}", ref.MapV(idKV, ref.KV{K: "n", V: ref.MapV(kvs...)})
	case "ks":
		var vs []string
		var a []*ref.V
		for _, k := range row.keys {
			vs = append(vs, k.yaml)
			a = append(a, k.v)
		}
		return "{ks: [" + strings.Join(vs, ", ") + "], " + idText + "}", ref.MapV(ref.KV{K: "ks", V: ref.SeqV(a...)}, idKV)
	}
	// flat fields, in an order of their own per element, the id somewhere among them
	pos := r.IntN(len(parts) + 1)
	parts = append(parts[:pos:pos], append([]string{idText}, parts[pos:]...)...)
	kvs = append(kvs[:pos:pos], append([]ref.KV{idKV}, kvs[pos:]...)...)
	if len(names) > 1 && r.IntN(2) == 0 {
		i, j := r.IntN(len(parts)), r.IntN(len(parts))
		parts[i], parts[j] = parts[j], parts[i]
		kvs[i], kvs[j] = kvs[j], kvs[i]
	}
	return "{" + strings.Join(parts, ", ") + "}", ref.MapV(kvs...)
}

func c15PathOf(r *rand.Rand, prefix, name string) string {
	if r.IntN(4) == 0 {
		return prefix + `.["` + name + `"]`
	}
	return prefix + "." + name
}

func c15Join(r *rand.Rand, parts []string) string {
	sep := []string{", ", ", ", ",", " , "}[r.IntN(4)]
	return strings.Join(parts, sep)
}

// a random hand-made parenthesisation of a union of >= 3 operands
func c15Paren(r *rand.Rand, parts []string) string {
	if len(parts) <= 2 {
		return c15Join(r, parts)
	}
	cut := 1 + r.IntN(len(parts)-1)
	l, rt := parts[:cut], parts[cut:]
	ls, rs := c15Paren(r, l), c15Paren(r, rt)
	if len(l) > 1 {
		ls = "(" + ls + ")"
	}
	if len(rt) > 1 {
		rs = "(" + rs + ")"
	}
	return ls + ", " + rs
}

func c15MultiKey(r *rand.Rand, res mon.Result) mon.Result {
	fail := func(f string, a ...any) mon.Result {
		res.Verdict = mon.Violated
		res.Detail = fmt.Sprintf(f, a...)
		return res
	}
	nk := []int{1, 2, 2, 3, 3, 3, 3, 4, 4, 5}[r.IntN(10)]
	names := append([]string{}, c15KeyNames...)
	r.Shuffle(len(names), func(i, j int) { names[i], names[j] = names[j], names[i] })
	names = names[:nk]
	n := 2 + r.IntN(9)
	if r.IntN(4) == 0 {
		n = 13 + r.IntN(30) // library sorts switch algorithm with the length
	}
	cols := make([][]c15El, nk)
	for c := range cols {
		want := 1 + r.IntN(2)
		if c == nk-1 || r.IntN(4) == 0 {
			want = 2 + r.IntN(3)
		}
		cols[c] = c15Column(r, want)
	}
	rows := make([]c15Row, n)
	for i := range rows {
		rows[i].id = i
		rows[i].keys = make([]c15El, nk)
		for c := range cols {
			rows[i].keys[c] = cols[c][r.IntN(len(cols[c]))]
		}
		if i > 0 && nk > 1 && r.IntN(2) == 0 {
			// tie with an earlier element on a proper prefix of the tuple: a later key has to decide
			from := rows[r.IntN(i)]
			copy(rows[i].keys[:1+r.IntN(nk-1)], from.keys)
		}
	}

	// the way the key tuple is written
	forms := []string{"union", "union", "paren", "piped", "nested_paths", "collected", "ks_splat", "ks_index"}
	form := forms[r.IntN(len(forms))]
	shape := "flat"
	var f string
	var single []string // the one-key expressions, most significant first (for the law between runs)
	switch form {
	case "union", "paren", "collected":
		for _, nm := range names {
			single = append(single, c15PathOf(r, "", nm))
		}
		switch form {
		case "union":
			f = c15Join(r, single)
		case "paren":
			f = c15Paren(r, single)
		default:
			f = "[" + c15Join(r, single) + "]" + []string{"[]", " | .[]"}[r.IntN(2)]
		}
	case "piped":
		shape = "nested"
		var ps []string
		for _, nm := range names {
			ps = append(ps, c15PathOf(r, "", nm))
			single = append(single, ".n"+ps[len(ps)-1])
		}
		f = ".n | (" + c15Join(r, ps) + ")"
		if nk == 1 {
			f = ".n | " + ps[0]
		}
	case "nested_paths":
		shape = "nested"
		for _, nm := range names {
			single = append(single, c15PathOf(r, ".n", nm))
		}
		f = c15Join(r, single)
	case "ks_splat":
		shape = "ks"
		f = []string{".ks[]", ".ks | .[]", ".ks.[]"}[r.IntN(3)]
		for i := range names {
			single = append(single, fmt.Sprintf(".ks[%d]", i))
		}
	case "ks_index":
		shape = "ks"
		for i := range names {
			single = append(single, fmt.Sprintf(".ks[%d]", i))
		}
		f = c15Join(r, single)
	}
	container := []string{"seq", "seq", "seq", "path", "map"}[r.IntN(5)]

	type arrangement struct {
		doc  string
		seq  *ref.V
		keys [][]*ref.V
	}
	arrange := func(order []c15Row) arrangement {
		var a arrangement
		a.seq = ref.SeqV()
		var texts []string
		for _, row := range order {
			t, v := c15RowText(r, shape, names, row)
			if container == "map" {
				t = fmt.Sprintf("e%d: %s", row.id, t)
			}
			texts = append(texts, t)
			a.seq.A = append(a.seq.A, v)
			var ks []*ref.V
			for _, k := range row.keys {
				ks = append(ks, k.v)
			}
			a.keys = append(a.keys, ks)
		}
		switch container {
		case "map":
			a.doc = "{" + strings.Join(texts, ", ") + "}\n"
		case "path":
			a.doc = "{title: t, items: [" + strings.Join(texts, ", ") + "]}\n"
		default:
			a.doc = "[" + strings.Join(texts, ", ") + "]\n"
		}
		return a
	}
	wrap := func(sorter string) string {
		if container == "path" {
			if r.IntN(2) == 0 {
				return ".items |= " + sorter + " | .items"
			}
			return ".items | " + sorter
		}
		return sorter
	}
	// one run: the sorted elements in output order
	run := func(expr, doc string) ([]*ref.V, error) {
		got, err := c15Eval(expr, doc)
		res.Evals++
		if err != nil {
			return nil, err
		}
		if len(got) != 1 {
			return nil, fmt.Errorf("%d results", len(got))
		}
		switch {
		case container == "map" && got[0].K == ref.Map:
			var out []*ref.V
			for _, kv := range got[0].M {
				out = append(out, kv.V)
			}
			return out, nil
		case container != "map" && got[0].K == ref.Seq:
			return got[0].A, nil
		}
		return nil, fmt.Errorf("result is a %s: %s", got[0].K, got[0])
	}
	ids := func(vs []*ref.V) string {
		var s []string
		for _, v := range vs {
			if id, ok := v.Get("id"); ok && v.K == ref.Map {
				s = append(s, id.String())
			} else {
				s = append(s, "?")
			}
		}
		return "[" + strings.Join(s, " ") + "]"
	}
	tuple := func(row c15Row) string {
		var s []string
		for _, k := range row.keys {
			s = append(s, k.yaml)
		}
		return "(" + strings.Join(s, ", ") + ")"
	}

	expr := wrap("sort_by(" + f + ")")
	first := arrange(rows)
	res.Case = map[string]any{"doc": first.doc, "expr": expr}
	res.Sig = fmt.Sprintf("multikey|%x", hashStr(first.doc+expr))
	res.Nontrivial = n >= 3 && nk >= 2
	res.Tags = append(res.Tags, fmt.Sprintf("multikey:keys=%d", nk), "multikey:form="+form, "multikey:container="+container)
	if n >= 13 {
		res.Tags = append(res.Tags, "multikey:long")
	}
	// does a key beyond the second decide between two elements that tie on all earlier ones?
	deep := false
	for i := 0; i < n && !deep; i++ {
		for j := i + 1; j < n && !deep; j++ {
			for c := 0; c < nk; c++ {
				if x, _ := ref.Cmp(rows[i].keys[c].v, rows[j].keys[c].v); x != 0 {
					deep = c >= 2
					break
				}
			}
		}
	}
	if deep {
		res.Tags = append(res.Tags, "multikey:third_or_later_key_decides")
	}

	check := func(what string, a arrangement, order []c15Row) (string, []*ref.V) {
		want, err := ref.SortBy(a.seq, a.keys)
		if err != nil {
			return "", nil // outside the model: not generated
		}
		got, gerr := run(expr, a.doc)
		if gerr != nil {
			return fmt.Sprintf("`%s` failed on %s (%s): %v", expr, strings.TrimSpace(a.doc), what, gerr), nil
		}
		if len(got) != len(want.A) {
			return fmt.Sprintf("`%s` on %s (%s): %d elements out for %d in", expr, strings.TrimSpace(a.doc), what, len(got), len(want.A)), nil
		}
		for i := range got {
			if !ref.EqualNum(got[i], want.A[i]) {
				byID := map[string]c15Row{}
				for _, row := range order {
					byID[fmt.Sprint(row.id)] = row
				}
				expl := ""
				if gid, ok := got[i].Get("id"); ok && got[i].K == ref.Map {
					if wid, ok2 := want.A[i].Get("id"); ok2 {
						expl = fmt.Sprintf("; key tuples: id %s %s, id %s %s", wid, tuple(byID[wid.String()]), gid, tuple(byID[gid.String()]))
					}
				}
				return fmt.Sprintf("`%s` (%s): position %d differs from the stable lexicographic order of the key tuples under the one total order\n input    %s expected ids %s\n got      ids %s%s",
					expr, what, i, a.doc, ids(want.A), ids(got), expl), nil
			}
		}
		return "", got
	}
	d, got := check("as generated", first, rows)
	if d != "" {
		return fail("%s", d)
	}
	if got == nil {
		res.Verdict, res.Detail = mon.Inconclusive, "key pool outside the reference order"
		return res
	}
	// the same elements, arranged differently
	sh := append([]c15Row{}, rows...)
	r.Shuffle(len(sh), func(i, j int) { sh[i], sh[j] = sh[j], sh[i] })
	if d, _ := check("same elements, another arrangement", arrange(sh), sh); d != "" {
		return fail("%s", d)
	}
	// a stable sort composes: least significant key first, one key at a time
	if nk >= 2 && r.IntN(2) == 0 {
		var chain []string
		for i := len(single) - 1; i >= 0; i-- {
			chain = append(chain, "sort_by("+single[i]+")")
		}
		lsd := wrap(strings.Join(chain, " | "))
		if container == "path" {
			lsd = ".items | " + strings.Join(chain, " | ")
		}
		one, err := run(lsd, first.doc)
		if err != nil {
			return fail("`%s` failed on %s: %v", lsd, strings.TrimSpace(first.doc), err)
		}
		res.Tags = append(res.Tags, "multikey:one_key_at_a_time_law")
		if len(one) != len(got) {
			return fail("`%s` yields %d elements, `%s` %d", lsd, len(one), expr, len(got))
		}
		for i := range one {
			if !ref.EqualNum(one[i], got[i]) {
				return fail("sorting by one key at a time, least significant first, differs from sorting by all keys at once (a stable sort composes)\n input %s `%s` -> ids %s\n `%s` -> ids %s",
					first.doc, expr, ids(got), lsd, ids(one))
			}
		}
	}
	res.Verdict, res.Detail = mon.Held, fmt.Sprintf("%d elements by %d keys (%s, %s): ordered by the whole tuple, stable", n, nk, form, container)
	return res
}
