// Package props wires one workload + oracle per property (c01.go … c19.go).
package props

import (
	"hash/fnv"
)

func hashStr(s string) uint64 {
	h := fnv.New64a()
	h.Write([]byte(s))
	return h.Sum64()
}

func clipStr(s string, n int) string {
	if len(s) <= n {
		return s
	}
	return s[:n] + "…"
}
