package props

import (
	"fmt"
	"math/rand/v2"
	"sort"
	"strconv"
	"strings"

	"github.com/mikefarah/yq/v4/pkg/yqlib"

	"verifharness/gen"
	"verifharness/mon"
	"verifharness/ref"
)

// C14, family "toml:headers" — TOML table DECLARATION ORDER.
//
// TOML lets the headers of one table tree come in any order: a sub-table ([a.b], [[a.list]]) may be
// written before the header of its super-table ([a]), which then only ADDS its own key/values (none,
// one, several) to what the earlier headers created implicitly. A decoder that places every header
// through "assign at path" has to MERGE there; any place where it replaces instead loses content
// silently. The family generates a random table tree (tables with 0..2 key/values, implicit tables
// without a header of their own, arrays of tables as leaves, depth <= 3), emits the header blocks in
// a random or targeted order (super-table last / super-table in the middle after its descendants /
// conventional parent-first), with empty, one-key and several-key bodies at every position (the end
// of the document, before comments and blank lines only, before another header), and compares
// `yq -p=toml -o=json` with the statement list's meaning under ref.TOMLBuild, which python3 tomllib
// cross-validates (every second case and every disagreement).
//
// Kept out (recorded deviations of the unchanged tree, each of them stays in toml:decode as a known
// finding): an empty table that does not exist yet and is followed by another header
// (C14-toml-empty-table-dropped) - here every empty header before another header names a table that
// already exists, where dropping it changes nothing; headers below an array-of-tables element
// (C14-toml-subtable-under-array-table) - arrays of tables are leaves and every element has a
// key/value directly after its header.

type c14HdrNode struct {
	path     []string
	body     []ref.TStmt // key/values of the table (paths relative to it)
	kids     []*c14HdrNode
	aot      bool          // an array of tables (leaf): elems are the bodies of its elements
	elems    [][]ref.TStmt // aot only
	explicit bool          // has a header of its own
}

type c14HdrBlock struct {
	node *c14HdrNode
	hdr  ref.TStmt
	body []ref.TStmt
}

type c14HdrGen struct {
	r    *rand.Rand
	n    int
	tags map[string]bool
}

var c14HdrBare = []string{"a", "b", "c", "name", "key", "x1", "my-key", "my_key", "A", "server", "port", "owner", "net", "e1", "true", "inf", "0", "10"}
var c14HdrQuoted = []string{"with space", "dotted.key", "ʎǝʞ", "日本", "😀", "q\"uote", "", "#hash", "a=b", "[x]", "it's", " lead", "trail ", "a*", "?"}

func c14AllDigits(s string) bool {
	for i := 0; i < len(s); i++ {
		if s[i] < '0' || s[i] > '9' {
			return false
		}
	}
	return s != ""
}

func (g *c14HdrGen) key(used map[string]bool, noDigits bool) string {
	for {
		var k string
		switch g.r.IntN(7) {
		case 0:
			k = c14HdrQuoted[g.r.IntN(len(c14HdrQuoted))]
			g.tags["quoted_key"] = true
		case 1:
			k = fmt.Sprintf("k%d", g.n)
			g.n++
		default:
			k = c14HdrBare[g.r.IntN(len(c14HdrBare))]
		}
		if used[k] || (noDigits && c14AllDigits(k)) {
			k = fmt.Sprintf("u%d", g.n)
			g.n++
		}
		if !used[k] {
			used[k] = true
			return k
		}
	}
}

func (g *c14HdrGen) scalar() *ref.TVal {
	r := g.r
	switch r.IntN(8) {
	case 0, 1, 2:
		n := int64(r.IntN(4000) - 1000)
		return &ref.TVal{Scalar: ref.IntV(n), Lit: strconv.FormatInt(n, 10)}
	case 3:
		b := r.IntN(2) == 0
		return &ref.TVal{Scalar: ref.BoolV(b), Lit: strconv.FormatBool(b)}
	case 4:
		f := []float64{0.5, -1.25, 3, 1e10, 6.02e23, -0.001}[r.IntN(6)]
		lit := strconv.FormatFloat(f, 'g', -1, 64)
		if !strings.ContainsAny(lit, ".e") {
			lit += ".0"
		}
		return &ref.TVal{Scalar: ref.FloatV(f), Lit: lit}
	}
	s := gen.C14Text(r)
	if len(s) >= 5 && c14AllDigits(s[:2]) {
		s = "x" + s
	}
	return &ref.TVal{Scalar: ref.StrV(s), Lit: ref.TOMLBasicString(s, func(n int) int { return r.IntN(n) })}
}

func (g *c14HdrGen) value() *ref.TVal {
	r := g.r
	switch r.IntN(9) {
	case 0:
		t := &ref.TVal{IsArr: true}
		for i, n := 0, r.IntN(4); i < n; i++ {
			t.Array = append(t.Array, g.scalar())
		}
		g.tags["array_value"] = true
		return t
	case 1:
		t := &ref.TVal{IsInl: true}
		used := map[string]bool{}
		for i, n := 0, r.IntN(3); i < n; i++ {
			t.Inline = append(t.Inline, ref.TInlineKV{Path: []string{g.key(used, false)}, Val: g.scalar()})
		}
		g.tags["inline_table_value"] = true
		if len(t.Inline) == 0 {
			g.tags["empty_inline_table_value"] = true
		}
		return t
	}
	return g.scalar()
}

// kvs makes n key/values with keys that are new in used.
func (g *c14HdrGen) kvs(n int, used map[string]bool) []ref.TStmt {
	var out []ref.TStmt
	for i := 0; i < n; i++ {
		out = append(out, ref.TStmt{Kind: ref.TKV, Path: []string{g.key(used, false)}, Val: g.value()})
	}
	return out
}

// table makes a table node; depth = how many more levels may follow; wantKids forces at least one child.
func (g *c14HdrGen) table(path []string, depth int, wantKids bool) *c14HdrNode {
	r := g.r
	nd := &c14HdrNode{path: path, explicit: true}
	used := map[string]bool{"filler": true}
	nkids := 0
	if depth > 0 {
		nkids = r.IntN(3)
		if wantKids && nkids == 0 {
			nkids = 1 + r.IntN(2)
		}
	}
	for i := 0; i < nkids; i++ {
		aot := r.IntN(4) == 0
		k := g.key(used, aot)
		p := append(append([]string{}, path...), k)
		if aot {
			kid := &c14HdrNode{path: p, aot: true}
			for j, n := 0, 1+r.IntN(3); j < n; j++ {
				kid.elems = append(kid.elems, g.kvs(1+r.IntN(2), map[string]bool{"filler": true}))
			}
			nd.kids = append(nd.kids, kid)
			continue
		}
		nd.kids = append(nd.kids, g.table(p, depth-1, depth > 1 && r.IntN(3) == 0))
	}
	nd.body = g.kvs(r.IntN(3), used)
	if len(nd.kids) > 0 && len(nd.body) == 0 && r.IntN(3) == 0 {
		nd.explicit = false
		g.tags["implicit_table"] = true
	}
	return nd
}

func (nd *c14HdrNode) blocks(out []c14HdrBlock) []c14HdrBlock {
	if nd.aot {
		for _, e := range nd.elems {
			out = append(out, c14HdrBlock{node: nd, hdr: ref.TStmt{Kind: ref.TArrayTable, Path: nd.path}, body: e})
		}
		return out
	}
	if nd.explicit {
		out = append(out, c14HdrBlock{node: nd, hdr: ref.TStmt{Kind: ref.TTable, Path: nd.path}, body: nd.body})
	}
	for _, k := range nd.kids {
		out = k.blocks(out)
	}
	return out
}

func c14HasPrefix(p, prefix []string) bool {
	if len(p) <= len(prefix) {
		return false
	}
	for i := range prefix {
		if p[i] != prefix[i] {
			return false
		}
	}
	return true
}

// c14TomlHas: does the header path name an existing table of v (entering the last element of arrays of tables)?
func c14TomlHas(v *ref.V, path []string) bool {
	cur := v
	for _, seg := range path {
		if cur.K == ref.Seq {
			if len(cur.A) == 0 {
				return false
			}
			cur = cur.A[len(cur.A)-1]
		}
		if cur.K != ref.Map {
			return false
		}
		child, ok := cur.Get(seg)
		if !ok {
			return false
		}
		cur = child
	}
	return cur.K == ref.Map
}

func c14HdrComment(r *rand.Rand) ref.TStmt {
	return ref.TStmt{Kind: ref.TComment, Text: []string{"", "", " comment", " [not.a.table]", " k = \"v\"", " [[x]]"}[r.IntN(6)]}
}

// c14TOMLHeaderDoc generates the statement list of one document of the family.
func c14TOMLHeaderDoc(r *rand.Rand) ([]ref.TStmt, []string, error) {
	g := &c14HdrGen{r: r, tags: map[string]bool{}}
	rootUsed := map[string]bool{"filler": true}
	var tops []*c14HdrNode
	ntop := 1 + r.IntN(3)
	for i := 0; i < ntop; i++ {
		k := g.key(rootUsed, false)
		tops = append(tops, g.table([]string{k}, 1+r.IntN(2), i == 0))
	}
	rootKVs := g.kvs(r.IntN(3), rootUsed)
	var blocks []c14HdrBlock
	for _, t := range tops {
		blocks = t.blocks(blocks)
	}
	// candidates for the targeted orders: explicit tables with at least one descendant block
	var supers []int
	for i, b := range blocks {
		if b.hdr.Kind != ref.TTable {
			continue
		}
		for _, o := range blocks {
			if c14HasPrefix(o.hdr.Path, b.hdr.Path) {
				supers = append(supers, i)
				break
			}
		}
	}
	mode := []string{"shuffle", "super_last", "super_last", "super_last", "super_mid", "super_mid", "parent_first", "shuffle"}[r.IntN(8)]
	if len(supers) == 0 && (mode == "super_last" || mode == "super_mid") {
		mode = "shuffle"
	}
	g.tags["order:"+mode] = true
	bodyPick := r.IntN(6) // for the targeted super-table: 0..2 empty, 3..4 one key, 5 as generated
	switch mode {
	case "shuffle":
		r.Shuffle(len(blocks), func(i, j int) { blocks[i], blocks[j] = blocks[j], blocks[i] })
	case "super_last", "super_mid":
		si := supers[r.IntN(len(supers))]
		sb := blocks[si]
		rest := append(append([]c14HdrBlock{}, blocks[:si]...), blocks[si+1:]...)
		r.Shuffle(len(rest), func(i, j int) { rest[i], rest[j] = rest[j], rest[i] })
		switch {
		case bodyPick <= 2:
			sb.body = nil
		case bodyPick <= 4:
			if len(sb.body) == 0 {
				used := map[string]bool{"filler": true}
				for _, k := range sb.node.kids {
					used[k.path[len(k.path)-1]] = true // not the name of a child table
				}
				sb.body = g.kvs(1, used)
			} else {
				sb.body = sb.body[:1]
			}
		}
		if mode == "super_last" {
			blocks = append(rest, sb)
		} else {
			// after all of its descendants, but followed by at least one unrelated block when there is one
			lastDesc := -1
			for i, o := range rest {
				if c14HasPrefix(o.hdr.Path, sb.hdr.Path) {
					lastDesc = i
				}
			}
			var unrelated, related []c14HdrBlock
			for i, o := range rest {
				if i > lastDesc {
					unrelated = append(unrelated, o)
				} else {
					related = append(related, o)
				}
			}
			if len(unrelated) == 0 {
				// move one unrelated block (not a descendant) behind, if any exists
				for i := len(related) - 1; i >= 0; i-- {
					if !c14HasPrefix(related[i].hdr.Path, sb.hdr.Path) {
						unrelated = append(unrelated, related[i])
						related = append(related[:i:i], related[i+1:]...)
						break
					}
				}
			}
			blocks = append(append(related, sb), unrelated...)
		}
	}
	// statements
	var stmts []ref.TStmt
	var hdrAt []int
	stmts = append(stmts, rootKVs...)
	for _, b := range blocks {
		if r.IntN(6) == 0 {
			stmts = append(stmts, c14HdrComment(r))
		}
		hdrAt = append(hdrAt, len(stmts))
		stmts = append(stmts, b.hdr)
		for _, kv := range b.body {
			if r.IntN(8) == 0 {
				stmts = append(stmts, c14HdrComment(r))
			}
			stmts = append(stmts, kv)
		}
	}
	// an empty table that is new may only stand at the very end (before another header yq drops it: recorded finding)
	filler := ref.TStmt{Kind: ref.TKV, Path: []string{"filler"}, Val: &ref.TVal{Scalar: ref.BoolV(true), Lit: "true"}}
	for bi := 0; bi < len(blocks); bi++ {
		at := hdrAt[bi]
		if len(blocks[bi].body) > 0 {
			continue
		}
		if blocks[bi].hdr.Kind == ref.TArrayTable {
			return nil, nil, fmt.Errorf("array-of-tables element without key/values")
		}
		before, err := ref.TOMLBuild(stmts[:at], ref.TOMLQuirks{})
		if err != nil {
			return nil, nil, err
		}
		exists := c14TomlHas(before, blocks[bi].hdr.Path)
		last := bi == len(blocks)-1
		switch {
		case exists && last:
			g.tags["empty_header_of_existing_table_last"] = true
		case exists:
			g.tags["empty_header_of_existing_table_before_header"] = true
		case last:
			g.tags["empty_header_of_new_table_last"] = true
		default:
			stmts = append(stmts[:at+1:at+1], append([]ref.TStmt{filler}, stmts[at+1:]...)...)
			for j := bi + 1; j < len(hdrAt); j++ {
				hdrAt[j]++
			}
			g.tags["filler_for_new_empty_table"] = true
		}
	}
	// what the headers found in place
	for bi, b := range blocks {
		if len(b.body) == 0 || b.hdr.Kind != ref.TTable {
			continue
		}
		before, err := ref.TOMLBuild(stmts[:hdrAt[bi]], ref.TOMLQuirks{})
		if err != nil {
			return nil, nil, err
		}
		if c14TomlHas(before, b.hdr.Path) {
			if bi == len(blocks)-1 {
				g.tags["keyed_header_of_existing_table_last"] = true
			} else {
				g.tags["keyed_header_of_existing_table"] = true
			}
		}
	}
	for bi, b := range blocks {
		for _, o := range blocks[:bi] {
			if c14HasPrefix(o.hdr.Path, b.hdr.Path) && b.hdr.Kind == ref.TTable {
				if o.hdr.Kind == ref.TArrayTable {
					g.tags["super_table_after_array_of_tables"] = true
				} else {
					g.tags["super_table_after_sub_table"] = true
				}
				if len(o.hdr.Path)-len(b.hdr.Path) >= 2 {
					g.tags["super_table_after_grandchild"] = true
				}
			}
		}
		if len(b.hdr.Path) >= 3 {
			g.tags["depth3"] = true
		}
	}
	if r.IntN(2) == 0 {
		for i, n := 0, 1+r.IntN(3); i < n; i++ {
			stmts = append(stmts, c14HdrComment(r))
		}
		g.tags["trailing_comments_or_blank_lines"] = true
	}
	tl := make([]string, 0, len(g.tags))
	for t := range g.tags {
		tl = append(tl, t)
	}
	sort.Strings(tl)
	return stmts, tl, nil
}

func c14TOMLHeaders(c *c14ctx) {
	stmts, tags, err := c14TOMLHeaderDoc(c.r)
	if err != nil {
		c.incon("toml:headers generator: %v", err)
		return
	}
	c.tag(c14Prefix("toml:headers:", tags)...)
	c.tag("fmt:toml:decode")
	text := ref.TOMLWrite(stmts, &ref.TOMLStyle{Choose: c.ch})
	if c.ch(4) == 0 && strings.HasSuffix(text, "\n") {
		text = text[:len(text)-1] // no line end after the last statement
		c.tag("toml:headers:no_final_newline")
	}
	c.cs["input"] = text
	want, err := ref.TOMLBuild(stmts, ref.TOMLQuirks{})
	if err != nil {
		c.incon("generator produced a document its own semantics reject: %v\ntext: %s", err, clipStr(text, 600))
		return
	}
	c.sig = fmt.Sprintf("%x", want.ShapeHash())
	c.nt = true // every document has at least one table header
	checked := 0
	if c.idx%2 == 0 {
		if checked = c14TomllibAgrees(c, text, want, nil); checked < 0 {
			return
		}
	}
	confirm := func() bool {
		if checked == 0 {
			checked = c14TomllibAgrees(c, text, want, nil)
		}
		return checked >= 0
	}
	out, yerr, pan := c.eval(".", text, yqlib.NewTomlDecoder(), c14JSONEnc())
	if pan != nil {
		if confirm() {
			c.violated("yq -p=toml panicked on a valid document: %s\n%s\ntext: %s", pan.Value, clipStr(pan.Stack, 500), clipStr(text, 700))
		}
		return
	}
	if yerr != nil {
		if confirm() {
			c.violated("yq -p=toml rejects a valid document: %v\ntext: %s", yerr, clipStr(text, 800))
		}
		return
	}
	if c.bin && !c.sameAsBinary(out, text, "-p=toml", "-o=json", "-I0", ".") {
		return
	}
	var got *ref.V
	if strings.TrimSpace(out) == "" && len(want.M) == 0 {
		got = want
	} else {
		g, ok := c14OneJSON(c, "toml decode", out)
		if !ok {
			return
		}
		got = g
	}
	if c14Eq(got, want, false) {
		c.held("decoded to %s", clipStr(want.JSON(), 300))
		return
	}
	if !confirm() {
		return
	}
	c.violated("yq -p=toml does not yield the value the document denotes (table headers in this order must add to what earlier headers created)\nexpected: %s\ngot:      %s\ntext: %s",
		clipStr(want.JSON(), 900), clipStr(got.JSON(), 900), clipStr(text, 900))
}

// c14RunExtra runs a family that is routed by case index instead of the round-robin cell table.
func c14RunExtra(w *mon.Worker, idx int, cell c14Cell) mon.Result {
	c := &c14ctx{w: w, r: w.Rand(idx), idx: idx, cs: map[string]any{"cell": cell.name}, tags: map[string]bool{}}
	c.bin = c.r.IntN(12) == 0
	cell.run(c)
	if !c.done {
		c.incon("cell %s did not reach a verdict (harness bug)", cell.name)
	}
	c.tag("cell:" + cell.name)
	tl := make([]string, 0, len(c.tags))
	for t := range c.tags {
		tl = append(tl, t)
	}
	sort.Strings(tl)
	c.res.Tags = tl
	c.res.Case = c.cs
	c.res.Nontrivial = c.nt
	c.res.Sig = fmt.Sprintf("%s|%s|%x", cell.name, c.sig, hashStr(strings.Join(tl, ",")))
	return c.res
}

var c14HeadersCell = c14Cell{"toml:headers", c14TOMLHeaders}
