//go:build linux && amd64

package props

import (
	"bytes"
	"os"
	"runtime"
	"strings"
	"sync/atomic"
	"syscall"
	"time"
	"unsafe"
)

// A minimal ptrace(2) tracer for C12: it records the file-protocol syscalls of every thread of
// the tracee in one global order and tampers with exactly one chosen occurrence of one kind
// (errno without executing the call, or SIGKILL before the call executes) — the same two
// mechanisms `strace -e inject=…:error=…` / `:signal=SIGKILL` use. strace itself counts `when=N`
// per thread, and the Go scheduler moves the main goroutine between threads, so strace cannot
// address "the 3rd write to the temporary file"; this tracer can. A strace recording of the
// same command is compared against this tracer's recording in every case.

const c12TracerAvailable = true

const (
	c12PtraceGetSyscallInfo = 0x420e
	c12PtraceOExitKill      = 0x100000
	c12InfoEntry            = 1
	c12InfoExit             = 2
)

type c12PtInfo struct {
	Op   uint8
	_    [3]uint8
	Arch uint32
	IP   uint64
	SP   uint64
	U    [8]uint64 // entry: nr, args[6]; exit: rval, is_error
}

var c12SysNames = map[uint64]string{
	0: "read", 1: "write", 2: "open", 3: "close", 4: "stat", 5: "fstat", 6: "lstat", 17: "pread64", 18: "pwrite64",
	40: "sendfile", 59: "execve", 74: "fsync", 75: "fdatasync", 77: "ftruncate", 82: "rename", 83: "mkdir", 87: "unlink",
	90: "chmod", 91: "fchmod", 92: "chown", 93: "fchown", 231: "exit_group", 257: "openat", 258: "mkdirat", 260: "fchownat",
	262: "newfstatat", 263: "unlinkat", 264: "renameat", 265: "linkat", 266: "symlinkat", 268: "fchmodat", 275: "splice",
	316: "renameat2", 326: "copy_file_range", 332: "statx", 452: "fchmodat2",
}

var c12ErrnoByName = map[string]syscall.Errno{
	"EPERM": syscall.EPERM, "ENOENT": syscall.ENOENT, "EINTR": syscall.EINTR, "EIO": syscall.EIO, "EACCES": syscall.EACCES,
	"EEXIST": syscall.EEXIST, "EXDEV": syscall.EXDEV, "EMFILE": syscall.EMFILE, "ENOSPC": syscall.ENOSPC, "EROFS": syscall.EROFS,
	"EDQUOT": syscall.EDQUOT, "EBUSY": syscall.EBUSY, "EFBIG": syscall.EFBIG,
}

func c12PtReadString(tid int, addr uintptr) string {
	if addr == 0 {
		return ""
	}
	var out []byte
	buf := make([]byte, 256)
	for len(out) < 4096 {
		n := 256 - int(addr%256)
		c, err := syscall.PtracePeekData(tid, addr, buf[:n])
		if c > 0 {
			if i := bytes.IndexByte(buf[:c], 0); i >= 0 {
				return string(append(out, buf[:i]...))
			}
			out = append(out, buf[:c]...)
			addr += uintptr(c)
		}
		if err != nil || c == 0 {
			break
		}
	}
	return string(out)
}

func c12OpenFlags(f uint64) string {
	var p []string
	switch f & 3 {
	case 0:
		p = append(p, "O_RDONLY")
	case 1:
		p = append(p, "O_WRONLY")
	case 2:
		p = append(p, "O_RDWR")
	}
	for _, b := range []struct {
		bit uint64
		n   string
	}{{0x40, "O_CREAT"}, {0x80, "O_EXCL"}, {0x200, "O_TRUNC"}, {0x400, "O_APPEND"}, {0x80000, "O_CLOEXEC"}} {
		if f&b.bit != 0 {
			p = append(p, b.n)
		}
	}
	return strings.Join(p, "|")
}

// c12PtDecode fills the structured argument fields of e from the entry registers.
func c12PtDecode(tid int, e *c12Ev, a []uint64, cwd string) {
	const atFdcwd = -100
	fd := func(v uint64) int { return int(int32(v)) }
	path := func(dirfd uint64, p uint64) string {
		s := c12PtReadString(tid, uintptr(p))
		if s != "" && !strings.HasPrefix(s, "/") {
			if fd(dirfd) == atFdcwd {
				return cwd + "/" + s
			}
			return "?dirfd?/" + s
		}
		return s
	}
	cw := uint64(0xffffff9c) // AT_FDCWD as uint32
	switch e.Name {
	case "read", "write", "pread64", "pwrite64", "fsync", "fdatasync", "ftruncate", "fstat", "fchmod", "fchown", "close":
		e.Fd = fd(a[0])
	case "open":
		e.Path, e.Flags = path(cw, a[0]), c12OpenFlags(a[1])
	case "stat", "lstat", "mkdir", "unlink", "chmod", "chown":
		e.Path = path(cw, a[0])
		e.NoFollow = e.Name == "lstat"
	case "rename":
		e.Path, e.Path2 = path(cw, a[0]), path(cw, a[1])
	case "openat":
		e.Path, e.Flags = path(a[0], a[1]), c12OpenFlags(a[2])
	case "mkdirat", "fchownat", "unlinkat", "fchmodat", "fchmodat2":
		e.Path = path(a[0], a[1])
	case "newfstatat":
		e.Path = path(a[0], a[1])
		e.NoFollow = a[3]&0x100 != 0
		if e.Path == "" {
			e.Fd = fd(a[0])
		}
	case "statx":
		e.Path = path(a[0], a[1])
		e.NoFollow = a[2]&0x100 != 0
		if e.Path == "" {
			e.Fd = fd(a[0])
		}
	case "renameat", "renameat2", "linkat":
		e.Path, e.Path2 = path(a[0], a[1]), path(a[2], a[3])
	case "symlinkat":
		e.Path = path(a[1], a[2])
	case "sendfile":
		e.Fd, e.Fd2 = fd(a[1]), fd(a[0]) // Fd = source, Fd2 = destination
	case "copy_file_range", "splice":
		e.Fd, e.Fd2 = fd(a[0]), fd(a[2])
	}
}

// c12PtraceRun runs argv under the tracer. fault (may be empty) is applied when the occurrence
// counter of a matching kind reaches Occ. stdout/stderr go to the given files.
func c12PtraceRun(argv, env []string, dir, outPath, errPath string, faults []c12Inject, ro c12Roles, cpuSecs int, wall time.Duration) (tr *c12Trace, timedOut bool, startErr error) {
	runtime.LockOSThread()
	defer runtime.UnlockOSThread()

	tr = &c12Trace{MainTid: -1}
	devnull, err := os.Open(os.DevNull)
	if err != nil {
		return tr, false, err
	}
	defer devnull.Close()
	outf, err := os.Create(outPath)
	if err != nil {
		return tr, false, err
	}
	defer outf.Close()
	errf, err := os.Create(errPath)
	if err != nil {
		return tr, false, err
	}
	defer errf.Close()

	pid, err := syscall.ForkExec(argv[0], argv, &syscall.ProcAttr{
		Dir: dir, Env: env,
		Files: []uintptr{devnull.Fd(), outf.Fd(), errf.Fd()},
		Sys:   &syscall.SysProcAttr{Ptrace: true, Setpgid: true},
	})
	if err != nil {
		return tr, false, err
	}
	tr.MainTid = pid
	var ws syscall.WaitStatus
	if _, err := syscall.Wait4(pid, &ws, syscall.WALL, nil); err != nil || !ws.Stopped() {
		_ = syscall.Kill(pid, syscall.SIGKILL)
		_, _ = syscall.Wait4(pid, &ws, syscall.WALL, nil)
		return tr, false, err
	}
	if cpuSecs > 0 {
		lim := [2]uint64{uint64(cpuSecs), uint64(cpuSecs)}
		_, _, _ = syscall.RawSyscall6(syscall.SYS_PRLIMIT64, uintptr(pid), uintptr(syscall.RLIMIT_CPU), uintptr(unsafe.Pointer(&lim)), 0, 0, 0)
	}
	opts := syscall.PTRACE_O_TRACESYSGOOD | syscall.PTRACE_O_TRACECLONE | syscall.PTRACE_O_TRACEFORK | syscall.PTRACE_O_TRACEVFORK | c12PtraceOExitKill
	if err := syscall.PtraceSetOptions(pid, opts); err != nil {
		_ = syscall.Kill(pid, syscall.SIGKILL)
		_, _ = syscall.Wait4(pid, &ws, syscall.WALL, nil)
		return tr, false, err
	}
	var fired atomic.Bool
	timer := time.AfterFunc(wall, func() {
		fired.Store(true)
		_ = syscall.Kill(pid, syscall.SIGKILL)
	})
	defer timer.Stop()

	tk := newC12Tracker(ro)
	seen := map[int]bool{pid: true}
	pendEv := map[int]*c12Ev{}         // syscall in flight per thread (only recorded kinds)
	pendErr := map[int]syscall.Errno{} // errno to plant at exit
	done := make([]bool, len(faults))
	killed := false
	_ = syscall.PtraceSyscall(pid, 0)
	for {
		wpid, err := syscall.Wait4(-1, &ws, syscall.WALL, nil)
		if err == syscall.EINTR {
			continue
		}
		if err != nil {
			break // ECHILD: everything is gone
		}
		if ws.Exited() || ws.Signaled() {
			if wpid == pid {
				if ws.Exited() {
					tr.Exited, tr.ExitCode = true, ws.ExitStatus()
				} else {
					tr.Killed = "SIG" + strings.ToUpper(strings.TrimPrefix(sigName(ws.Signal()), "SIG"))
				}
			}
			if e := pendEv[wpid]; e != nil {
				// died inside the call
				delete(pendEv, wpid)
				e.Ret, e.RetN = "?", -1
				tk.commit(e)
				tr.Evs = append(tr.Evs, *e)
			}
			delete(seen, wpid)
			continue
		}
		if !ws.Stopped() {
			continue
		}
		sig := ws.StopSignal()
		switch {
		case sig == syscall.SIGTRAP|0x80:
			var info c12PtInfo
			_, _, en := syscall.Syscall6(syscall.SYS_PTRACE, c12PtraceGetSyscallInfo, uintptr(wpid), unsafe.Sizeof(info), uintptr(unsafe.Pointer(&info)), 0, 0)
			if en != 0 {
				_ = syscall.PtraceSyscall(wpid, 0)
				continue
			}
			switch info.Op {
			case c12InfoEntry:
				name, ok := c12SysNames[info.U[0]]
				if !ok {
					break
				}
				e := &c12Ev{Tid: wpid, Name: name, Fd: -1, Fd2: -1, RetN: -1}
				c12PtDecode(wpid, e, info.U[1:7], dir)
				tk.classify(e)
				for i, f := range faults {
					if done[i] || f.Kind != e.Kind || f.Occ != e.OccK {
						continue
					}
					done[i] = true
					if f.Errno == "" {
						// SIGKILL while the thread sits in syscall-enter-stop: the call is never executed
						e.Ret, e.KillHere = "?", true
						killed = true
						tk.commit(e)
						tr.Evs = append(tr.Evs, *e)
						_ = syscall.Kill(pid, syscall.SIGKILL)
						e = nil
					} else if en, ok := c12ErrnoByName[f.Errno]; ok {
						var regs syscall.PtraceRegs
						if syscall.PtraceGetRegs(wpid, &regs) == nil {
							regs.Orig_rax = ^uint64(0) // no such syscall: the kernel skips it
							if syscall.PtraceSetRegs(wpid, &regs) == nil {
								pendErr[wpid] = en
								e.Inj = true
								e.Errno = f.Errno
							}
						}
					}
					break
				}
				if e != nil {
					pendEv[wpid] = e
				}
			case c12InfoExit:
				e := pendEv[wpid]
				if e == nil {
					break
				}
				delete(pendEv, wpid)
				rv := int64(info.U[0])
				if en, ok := pendErr[wpid]; ok {
					delete(pendErr, wpid)
					var regs syscall.PtraceRegs
					if syscall.PtraceGetRegs(wpid, &regs) == nil {
						regs.Rax = uint64(-int64(en))
						_ = syscall.PtraceSetRegs(wpid, &regs)
					}
					rv = -int64(en)
				}
				if rv < 0 && rv > -4096 {
					e.RetN, e.Ret = -1, "-1"
					if e.Errno == "" {
						e.Errno = c12ErrnoName(syscall.Errno(-rv))
					}
				} else {
					e.RetN = rv
					e.Ret = itoa64(rv)
				}
				tk.commit(e)
				tr.Evs = append(tr.Evs, *e)
			}
			if !killed {
				_ = syscall.PtraceSyscall(wpid, 0)
			}
		case sig == syscall.SIGTRAP && ws.TrapCause() > 0:
			// PTRACE_EVENT_CLONE/FORK/VFORK stop of the parent
			_ = syscall.PtraceSyscall(wpid, 0)
		case sig == syscall.SIGSTOP && !seen[wpid]:
			// first stop of a new thread
			seen[wpid] = true
			_ = syscall.PtraceSyscall(wpid, 0)
		default:
			// signal-delivery stop (SIGURG preemption, SIGPIPE, SIGXCPU …): hand the signal on
			seen[wpid] = true
			_ = syscall.PtraceSyscall(wpid, int(sig))
		}
	}
	timedOut = fired.Load()
	return tr, timedOut, nil
}

func sigName(s syscall.Signal) string {
	switch s {
	case syscall.SIGKILL:
		return "SIGKILL"
	case syscall.SIGXCPU:
		return "SIGXCPU"
	case syscall.SIGSEGV:
		return "SIGSEGV"
	case syscall.SIGABRT:
		return "SIGABRT"
	case syscall.SIGPIPE:
		return "SIGPIPE"
	}
	return "SIG" + itoa64(int64(s))
}

func c12ErrnoName(e syscall.Errno) string {
	for n, v := range c12ErrnoByName {
		if v == e {
			return n
		}
	}
	switch e {
	case syscall.ENOSYS:
		return "ENOSYS"
	case syscall.EAGAIN:
		return "EAGAIN"
	case syscall.EINVAL:
		return "EINVAL"
	case syscall.ENOTDIR:
		return "ENOTDIR"
	case syscall.EISDIR:
		return "EISDIR"
	case syscall.EOPNOTSUPP:
		return "EOPNOTSUPP"
	case syscall.EBADF:
		return "EBADF"
	}
	return "E" + itoa64(int64(e))
}

func itoa64(v int64) string {
	if v == 0 {
		return "0"
	}
	neg := v < 0
	if neg {
		v = -v
	}
	var b [24]byte
	i := len(b)
	for v > 0 {
		i--
		b[i] = byte('0' + v%10)
		v /= 10
	}
	if neg {
		i--
		b[i] = '-'
	}
	return string(b[i:])
}
