package genc06

// C06: the harness's own JSON writer with surface variation (white space, string escapes incl.
// surrogate pairs and `\/`, number spellings). The value stays fixed; only the text varies.

import (
	"fmt"
	"math/big"
	"math/rand/v2"
	"strconv"
	"strings"
	"unicode/utf8"

	"verifharness/ref"
)

// C06JSONProf tunes the JSON value generator.
type C06JSONProf struct {
	MaxDepth, MaxWidth int
	ScalarBias         int
	BigInts            bool // integers beyond 2^53 may appear
}

// C06JSONValue generates a JSON-model value: unique string keys per object (never "<<"), finite
// floats, valid Unicode strings.
func C06JSONValue(r *rand.Rand, p C06JSONProf) *ref.V {
	return c06JSONValue(r, p, 0)
}

func c06JSONScalar(r *rand.Rand, p C06JSONProf) *ref.V {
	switch r.IntN(20) {
	case 0, 1:
		return ref.NullV()
	case 2, 3:
		return ref.BoolV(r.IntN(2) == 0)
	case 4, 5, 6, 7:
		if p.BigInts && r.IntN(3) == 0 {
			if r.IntN(2) == 0 {
				return YBigInt(r).Val
			}
			// between 2^53 and 2^63
			i := new(big.Int).Lsh(big.NewInt(1), uint(53+r.IntN(10)))
			i.Add(i, big.NewInt(int64(1+r.IntN(999))))
			if r.IntN(3) == 0 {
				i.Neg(i)
			}
			return ref.BigV(i)
		}
		v := YInt(r).Val
		if !p.BigInts && v.I.BitLen() > 53 {
			return ref.IntV(int64(r.IntN(100000)))
		}
		return v
	case 8, 9, 10:
		return YFloat(r).Val
	default:
		return ref.StrV(C06Str(r))
	}
}

func c06JSONValue(r *rand.Rand, p C06JSONProf, depth int) *ref.V {
	if depth >= p.MaxDepth || (depth > 0 && r.IntN(100) < p.ScalarBias) {
		return c06JSONScalar(r, p)
	}
	w := r.IntN(p.MaxWidth + 1)
	if depth == 0 && w == 0 && r.IntN(4) != 0 {
		w = 1 + r.IntN(p.MaxWidth)
	}
	if r.IntN(2) == 0 {
		m := &ref.V{K: ref.Map, M: []ref.KV{}}
		for i := 0; i < w; i++ {
			var k string
			if r.IntN(3) == 0 {
				k = C06Str(r)
				if utf8.RuneCountInString(k) > 40 {
					k = string([]rune(k)[:40])
				}
			} else {
				k = c06Keys[r.IntN(len(c06Keys))]
			}
			if k == "<<" {
				k = "<"
			}
			if _, dup := m.Get(k); dup {
				continue
			}
			m.M = append(m.M, ref.KV{K: k, V: c06JSONValue(r, p, depth+1)})
		}
		return m
	}
	s := &ref.V{K: ref.Seq, A: []*ref.V{}}
	for i := 0; i < w; i++ {
		s.A = append(s.A, c06JSONValue(r, p, depth+1))
	}
	return s
}

// C06JSONChain: nested single-element arrays / single-member objects around a scalar.
func C06JSONChain(r *rand.Rand, depth int) *ref.V {
	v := c06JSONScalar(r, C06JSONProf{})
	for i := 0; i < depth; i++ {
		if r.IntN(2) == 0 {
			v = ref.SeqV(v)
		} else {
			v = ref.MapV(ref.KV{K: c06Keys[r.IntN(4)], V: v})
		}
	}
	return v
}

type jsonW struct {
	r  *rand.Rand
	ws int // 0 compact, 1 spaces, 2 pretty, 3 wild
	sb strings.Builder
}

func (w *jsonW) gap(depth int, nl bool) {
	switch w.ws {
	case 1:
		if w.r.IntN(2) == 0 {
			w.sb.WriteByte(' ')
		}
	case 2:
		if nl {
			w.sb.WriteByte('\n')
			for i := 0; i < depth; i++ {
				w.sb.WriteString("  ")
			}
		} else {
			w.sb.WriteByte(' ')
		}
	case 3:
		for n := w.r.IntN(3); n > 0; n-- {
			w.sb.WriteString([]string{" ", "\t", "\n", "\r\n", "\r", "  "}[w.r.IntN(6)])
		}
	}
}

// C06JSONString writes a JSON string literal choosing among the legal spellings of each character.
func C06JSONString(r *rand.Rand, s string) string {
	var sb strings.Builder
	sb.WriteByte('"')
	short := map[rune]string{8: `\b`, 12: `\f`, 10: `\n`, 13: `\r`, 9: `\t`, '"': `\"`, '\\': `\\`, '/': `\/`}
	for _, c := range s {
		must := c < 0x20 || c == '"' || c == '\\'
		if !must && r.IntN(8) != 0 {
			sb.WriteRune(c)
			continue
		}
		if e, ok := short[c]; ok && r.IntN(3) != 0 {
			sb.WriteString(e)
			continue
		}
		f := `\u%04x`
		if r.IntN(2) == 0 {
			f = `\u%04X`
		}
		if c >= 0x10000 {
			c -= 0x10000
			fmt.Fprintf(&sb, f+f, 0xd800+(c>>10), 0xdc00+(c&0x3ff))
		} else {
			fmt.Fprintf(&sb, f, c)
		}
	}
	sb.WriteByte('"')
	return sb.String()
}

// c06JSONNumber spells a number; the decimal value of the text is exactly the integer, or a
// float64 spelling that strconv.ParseFloat reads back to v.F.
func c06JSONNumber(r *rand.Rand, v *ref.V) string {
	if v.K == ref.Int {
		t := v.I.String()
		switch r.IntN(12) {
		case 0:
			return t + ".0"
		case 1:
			// mantissa with exponent, exact
			z := len(t) - len(strings.TrimRight(t, "0"))
			if z > 0 && t != "0" {
				return t[:len(t)-z] + []string{"e", "E", "e+", "E+"}[r.IntN(4)] + strconv.Itoa(z)
			}
		case 2:
			if t == "0" {
				return "-0"
			}
		}
		return t
	}
	f := v.F
	var t string
	switch r.IntN(6) {
	case 0, 1:
		t = strconv.FormatFloat(f, 'g', -1, 64)
		if !strings.ContainsAny(t, ".e") {
			t += ".0"
		}
	case 2:
		t = strconv.FormatFloat(f, 'e', -1, 64)
	case 3:
		t = strconv.FormatFloat(f, 'E', -1, 64)
	case 4:
		t = strconv.FormatFloat(f, 'g', 17+r.IntN(4), 64)
		if !strings.ContainsAny(t, ".e") {
			t += ".0"
		}
	default:
		t = strings.Replace(strconv.FormatFloat(f, 'e', -1, 64), "e+", "e", 1)
	}
	// JSON wants a digit before and after the point; strconv already guarantees that
	if g, err := strconv.ParseFloat(t, 64); err != nil || g != f {
		t = strconv.FormatFloat(f, 'g', -1, 64)
	}
	return t
}

func (w *jsonW) value(v *ref.V, depth int) {
	switch v.K {
	case ref.Null:
		w.sb.WriteString("null")
	case ref.Bool:
		w.sb.WriteString(strconv.FormatBool(v.B))
	case ref.Int, ref.Float:
		w.sb.WriteString(c06JSONNumber(w.r, v))
	case ref.Str:
		w.sb.WriteString(C06JSONString(w.r, v.S))
	case ref.Seq:
		w.sb.WriteByte('[')
		for i, x := range v.A {
			if i > 0 {
				w.sb.WriteByte(',')
			}
			w.gap(depth+1, true)
			w.value(x, depth+1)
		}
		if len(v.A) > 0 || w.ws == 3 {
			w.gap(depth, len(v.A) > 0)
		}
		w.sb.WriteByte(']')
	case ref.Map:
		w.sb.WriteByte('{')
		for i, e := range v.M {
			if i > 0 {
				w.sb.WriteByte(',')
			}
			w.gap(depth+1, true)
			w.sb.WriteString(C06JSONString(w.r, e.K))
			if w.ws == 3 {
				w.gap(depth+1, false)
			}
			w.sb.WriteByte(':')
			w.gap(depth+1, false)
			w.value(e.V, depth+1)
		}
		if len(v.M) > 0 || w.ws == 3 {
			w.gap(depth, len(v.M) > 0)
		}
		w.sb.WriteByte('}')
	}
}

// C06WriteJSON renders one JSON text.
func C06WriteJSON(r *rand.Rand, v *ref.V, ws int) string {
	w := &jsonW{r: r, ws: ws}
	w.value(v, 0)
	return w.sb.String()
}

// C06WriteJSONStream renders several JSON texts separated by white space (NDJSON and friends).
func C06WriteJSONStream(r *rand.Rand, vs []*ref.V, ws int) string {
	var sb strings.Builder
	sep := []string{"\n", "\n", " ", "\r\n", "\n\n", "\t"}[r.IntN(6)]
	for i, v := range vs {
		if i > 0 {
			sb.WriteString(sep)
		}
		sb.WriteString(C06WriteJSON(r, v, ws))
	}
	if r.IntN(2) == 0 {
		sb.WriteString("\n")
	}
	return sb.String()
}
