package genc06

// C06: the harness's OWN YAML writer. It never calls yaml.v3's encoder nor yq. A document is a
// tree of YN nodes that carries (a) the typed ground-truth value of every scalar and (b) the
// surface syntax chosen for it. Emit() prints the text, Resolve() gives the data-model value
// (aliases and `<<` merges resolved, keys by their text). Only spellings whose YAML 1.2
// core-schema meaning and yaml.v3 meaning coincide are produced; the property file re-reads every
// text with yaml.v3's Node API and drops the case on disagreement.

import (
	"fmt"
	"math"
	"math/big"
	"math/rand/v2"
	"strconv"
	"strings"
	"unicode"
	"unicode/utf8"
	"verifharness/gen"

	"verifharness/ref"
)

type YKind int

const (
	YScalar YKind = iota
	YSeq
	YMap
	YAlias
)

type YStyle int

const (
	YPlain YStyle = iota
	YSingle
	YDouble
	YLiteral
	YFolded
	YTagStr // `!!str text`
)

func (s YStyle) String() string {
	return [...]string{"plain", "single", "double", "literal", "folded", "tagstr"}[s]
}

// YN is one node of a generated YAML document.
type YN struct {
	Kind YKind
	// scalars
	Val    *ref.V   // typed ground truth (Null/Bool/Int/Float/Str)
	Style  YStyle   // strings: chosen style; everything else is plain
	Text   string   // rendered single-line token (all styles but literal/folded)
	Header string   // block scalars: "|", "|-", "|+", ">", ">-", ">+"
	Lines  []string // block scalars: content lines (without indentation)
	Spell  string   // number spelling class: dec, plus, hex, octal, exp, dot, ...
	// collections
	Flow    bool
	Compact bool // block collection nested in a sequence entry starts on the "- " line
	Dedent  bool // block sequence as a mapping value sits at the key's own indentation
	Step    int  // indentation step of the children (block style)
	Items   []*YN
	Keys    []*YN
	Vals    []*YN
	Merge   []bool // Keys[i] is a `<<` merge key, Vals[i] an alias to a mapping (or a flow sequence of such aliases)
	NoAlias bool   // the items of this sequence are a merge list: never replaced by other aliases
	// anchors
	Anchor string
	Target *YN
}

// KeyText is the text a (scalar) key contributes to the JSON object name.
func (n *YN) KeyText() string {
	if n.Kind == YAlias {
		return n.Target.KeyText()
	}
	if n.Val.K == ref.Str {
		return n.Val.S
	}
	return n.Text
}

// Resolve computes the data-model value: aliases dereferenced, merges spliced (the order of the
// keys of a map that merges is not asserted: such maps are recorded in unordered), keys by text.
func (n *YN) Resolve(unordered map[*ref.V]bool) *ref.V {
	switch n.Kind {
	case YAlias:
		return n.Target.Resolve(unordered)
	case YScalar:
		return n.Val.Copy()
	case YSeq:
		v := &ref.V{K: ref.Seq, A: []*ref.V{}}
		for _, it := range n.Items {
			v.A = append(v.A, it.Resolve(unordered))
		}
		return v
	}
	v := &ref.V{K: ref.Map, M: []ref.KV{}}
	merged := false
	for i, k := range n.Keys {
		if n.Merge != nil && n.Merge[i] {
			// `<<: *a` or `<<: [*a, *b]`: in a list the earlier map wins a key both have
			srcs := []*YN{n.Vals[i]}
			if n.Vals[i].Kind == YSeq {
				srcs = n.Vals[i].Items
			}
			for _, sn := range srcs {
				for _, kv := range sn.Resolve(unordered).M {
					if _, dup := v.Get(kv.K); !dup {
						v.M = append(v.M, kv)
					}
				}
			}
			merged = true
			continue
		}
		v.M = append(v.M, ref.KV{K: k.KeyText(), V: n.Vals[i].Resolve(unordered)})
	}
	if merged && unordered != nil {
		unordered[v] = true
	}
	return v
}

// Depth of the node tree (scalars = 0).
func (n *YN) Depth() int {
	d := 0
	for _, c := range n.Items {
		if x := c.Depth() + 1; x > d {
			d = x
		}
	}
	for _, c := range n.Vals {
		if x := c.Depth() + 1; x > d {
			d = x
		}
	}
	return d
}

// Walk visits every node (keys included) in document order.
func (n *YN) Walk(f func(n *YN, isKey bool)) {
	f(n, false)
	for _, c := range n.Items {
		c.Walk(f)
	}
	for i, k := range n.Keys {
		if n.Merge == nil || !n.Merge[i] {
			f(k, true)
		}
		n.Vals[i].Walk(f)
	}
}

// ---------------------------------------------------------------------------------------------
// character classes

// yRawOK: the rune may appear unescaped inside plain / quoted / block scalars. Deliberately
// narrower than YAML's c-printable: NEL, LS, PS (line breaks for libyaml), BOM, DEL..U+9F and the
// non-characters are only ever written through escapes.
func yRawOK(c rune) bool {
	switch {
	case c >= 0x20 && c <= 0x7e:
		return true
	case c >= 0xa0 && c <= 0xd7ff:
		return c != 0x2028 && c != 0x2029
	case c >= 0xe000 && c <= 0xfffd:
		return c != 0xfeff
	case c >= 0x10000 && c <= 0x10ffff:
		return c&0xffff < 0xfffe
	}
	return false
}

var yLookalike = map[string]bool{"true": true, "false": true, "null": true, "yes": true, "no": true, "on": true, "off": true, "y": true, "n": true, "nan": true, "inf": true}

// YCanPlain: conservative rule for a one-line plain scalar that certainly is a string in every
// YAML version and context (block, flow, key): starts with a letter, ends with a non-space, only
// letters, digits, space, `_ . / -` and raw-safe non-ASCII inside, and is no boolean/null word.
func YCanPlain(s string) bool {
	if s == "" || len(s) > 200 || yLookalike[strings.ToLower(s)] {
		return false
	}
	first, _ := utf8.DecodeRuneInString(s)
	if !(first >= 'A' && first <= 'Z' || first >= 'a' && first <= 'z' || first >= 0xa1 && unicode.IsLetter(first)) {
		return false
	}
	last, _ := utf8.DecodeLastRuneInString(s)
	if last == ' ' {
		return false
	}
	for _, c := range s {
		switch {
		case c >= 'A' && c <= 'Z', c >= 'a' && c <= 'z', c >= '0' && c <= '9', c == ' ', c == '_', c == '.', c == '/', c == '-':
		case c >= 0xa1 && yRawOK(c) && !unicode.IsSpace(c):
		default:
			return false
		}
	}
	return true
}

// YCanSingle: one line, raw-safe characters only.
func YCanSingle(s string) bool {
	for _, c := range s {
		if !yRawOK(c) {
			return false
		}
	}
	return len(s) <= 400
}

// YCanBlock: the text can be a literal (and, with folded=true, a folded) block scalar without an
// indentation indicator: non-empty body, no line starts with white space, raw-safe characters and
// line feeds only; folded additionally wants no line to end in white space and no tabs.
func YCanBlock(s string, folded bool) bool {
	body := strings.TrimRight(s, "\n")
	if body == "" || body[0] == '\n' || len(s) > 600 {
		return false
	}
	for _, ln := range strings.Split(body, "\n") {
		if ln == "" {
			continue
		}
		if ln[0] == ' ' || ln[0] == '\t' {
			return false
		}
		if folded && (ln[len(ln)-1] == ' ' || strings.ContainsRune(ln, '\t')) {
			return false
		}
		for _, c := range ln {
			if !yRawOK(c) && c != '\t' {
				return false
			}
		}
	}
	return true
}

// ---------------------------------------------------------------------------------------------
// scalar renderers

var yNamedEsc = map[rune]string{0: `\0`, 7: `\a`, 8: `\b`, 9: `\t`, 10: `\n`, 11: `\v`, 12: `\f`, 13: `\r`, 0x1b: `\e`, ' ': `\ `, '"': `\"`,
	'\\': `\\`, 0x85: `\N`, 0xa0: `\_`, 0x2028: `\L`, 0x2029: `\P`}

// YRenderDouble writes a double-quoted scalar; r picks among the legal spellings of every
// character (raw, named escape, \xNN, \uNNNN, \UNNNNNNNN). `\/` is never used: yaml.v3 (YAML 1.1
// scanner) rejects it.
func YRenderDouble(r *rand.Rand, s string) string {
	var sb strings.Builder
	sb.WriteByte('"')
	for _, c := range s {
		must := !yRawOK(c) || c == '"' || c == '\\'
		if !must && r.IntN(8) != 0 {
			sb.WriteRune(c)
			continue
		}
		var opts []string
		if e, ok := yNamedEsc[c]; ok {
			opts = append(opts, e, e)
		}
		hexf := func(w int) string {
			if r.IntN(2) == 0 {
				return fmt.Sprintf("%0*X", w, c)
			}
			return fmt.Sprintf("%0*x", w, c)
		}
		if c < 0x100 {
			opts = append(opts, `\x`+hexf(2))
		}
		if c < 0x10000 {
			opts = append(opts, `\u`+hexf(4))
		}
		opts = append(opts, `\U`+hexf(8))
		sb.WriteString(opts[r.IntN(len(opts))])
	}
	sb.WriteByte('"')
	return sb.String()
}

func yRenderSingle(s string) string { return "'" + strings.ReplaceAll(s, "'", "''") + "'" }

// yRenderBlock gives header and content lines of a literal or folded scalar.
func yRenderBlock(r *rand.Rand, s string, folded bool) (string, []string) {
	body := strings.TrimRight(s, "\n")
	trail := len(s) - len(body)
	h := "|"
	if folded {
		h = ">"
	}
	switch {
	case trail == 0:
		h += "-"
	case trail >= 2 || r.IntN(4) == 0:
		h += "+"
	}
	var lines []string
	if !folded {
		lines = strings.Split(body, "\n")
	} else {
		// every run of k line feeds becomes k+1 line breaks; a single space between two
		// non-space characters may be spelled as a line break (it folds back to one space)
		for i, ln := range strings.Split(body, "\n") {
			if i > 0 {
				lines = append(lines, "")
			}
			if ln == "" {
				continue
			}
			cur := []rune{}
			rs := []rune(ln)
			for j, c := range rs {
				if c == ' ' && j > 0 && j+1 < len(rs) && rs[j-1] != ' ' && rs[j+1] != ' ' && len(cur) > 0 && r.IntN(3) == 0 {
					lines = append(lines, string(cur))
					cur = cur[:0]
					continue
				}
				cur = append(cur, c)
			}
			lines = append(lines, string(cur))
		}
		// the loop above inserted one "" per line feed: k feeds -> k empty entries between the
		// texts, i.e. k+1 breaks. An empty source line contributed nothing itself.
	}
	for i := 0; i < trail-1; i++ {
		lines = append(lines, "")
	}
	return h, lines
}

// ---------------------------------------------------------------------------------------------
// scalar generators

// C06Strings: the torture list of the property's quantifier.
var C06Strings = []string{
	"", " ", "  ", "a", "abc", "hello world", "true", "false", "null", "~", "1", "0", "-1", "1.5", "0x10", "0o7", "1e3", "yes", "no", "on", "off",
	"Null", "TRUE", "True", "NULL", "Yes", "OFF", "y", "n", "2001-01-01", "2001-01-01T00:00:00Z", "12:30:45", "0777", "+1", "1_000", "0b1", ".5", "1.",
	"1.0", "-0", "-0.0", "1e400", ".inf", "-.INF", ".NaN", "+.inf", "Infinity", "NaN", "9007199254740993", "18446744073709551616", "0x", "0o", "1e", "e1",
	"=", "<<", "!!str", "!tag x", "&anchor", "*alias", "- item", "-", "- ", "key: value", "k:", ": x", "# comment", "a #c", "a# c", "%YAML 1.2", "@at", "`bt`",
	"|", ">", "|-", "?", "? x", "[", "]", "{", "}", ",", "[a, b]", "{a: b}", "'", "''", "\"", "\"\"", "'q'", "\"dq\"", "it's", "\\", "\\n", "\\u0041", "back\\slash",
	"---", "--- ", "...", "--- a", "\u2028", "\u2029", "a\u2028b", "\ufeff", "\ufeffa", "\u0085", "\u00a0", " nbsp ", "\x7f", "\x00", "a\x00b", "\x01", "\x1b[0m", "\x1f",
	"\r\n", "a\rb", "\r", "\t", "a\tb", "\ta", "\n", "\n\n", "a\n", "a\n\n", "a\n\n\n", "a\nb", "a\n\nb", "line1\nline2\n", " a\n b", "a \nb", "a\n b\nc", "trailing ", " leading",
	"<script>alert(1)&amp;</script>", "<>&", "<", "a/b", "http://x/y?z=1&w=2", "\u00e9", "\u65e5\u672c\u8a9e", "\U0001f600", "a\U0001f600b", "\U0001F469\u200d\U0001F4BB", "\U0010FFFD", "\ufffd", "\ud7ff\ue000",
	"e\u0301", "\uff46\uff55\uff4c\uff4c", "\u0663", "\u0661\u0662\u0663", "\u216b", "\u00bd", "x y z", "a  b", "word word word word word word word word word word word word word word word word word word word word word word",
	"0123456789012345678901234567890123456789012345678901234567890123456789012345678901234567890123456789",
}

// C06Str returns a string for a value or key position.
func C06Str(r *rand.Rand) string {
	switch r.IntN(10) {
	case 0, 1, 2, 3:
		return C06Strings[r.IntN(len(C06Strings))]
	case 4:
		return gen.PlainStrings()[r.IntN(len(gen.PlainStrings()))]
	case 5:
		return gen.TortureStrings()[r.IntN(len(gen.TortureStrings()))]
	case 6:
		// multi-line prose (block scalar material)
		n := 1 + r.IntN(4)
		var sb strings.Builder
		for i := 0; i < n; i++ {
			w := 1 + r.IntN(5)
			for j := 0; j < w; j++ {
				if j > 0 {
					sb.WriteByte(' ')
				}
				sb.WriteString(gen.PlainStrings()[r.IntN(len(gen.PlainStrings()))])
			}
			for k := r.IntN(3); k >= 0 && (i < n-1 || r.IntN(2) == 0); k-- {
				sb.WriteByte('\n')
				if r.IntN(3) != 0 {
					break
				}
			}
		}
		return sb.String()
	case 7:
		// concatenation of two torture fragments
		return C06Strings[r.IntN(len(C06Strings))] + C06Strings[r.IntN(len(C06Strings))]
	default:
		n := r.IntN(12)
		var sb strings.Builder
		for i := 0; i < n; i++ {
			if r.IntN(40) == 0 {
				sb.WriteRune(0)
			} else {
				sb.WriteRune(gen.Rune(r))
			}
		}
		return sb.String()
	}
}

// YStr builds a string scalar node; styles are chosen among those that can carry the text.
// ctx: 0 block value, 1 flow value, 2 key.
func YStr(r *rand.Rand, s string, ctx int) *YN {
	n := &YN{Kind: YScalar, Val: ref.StrV(s)}
	var opts []YStyle
	opts = append(opts, YDouble, YDouble)
	if YCanPlain(s) {
		opts = append(opts, YPlain, YPlain, YPlain)
	}
	if YCanSingle(s) {
		opts = append(opts, YSingle, YSingle)
		// `!!str x`: an explicitly tagged plain scalar; x must be syntactically plain-safe
		if s != "" && yTagPlainOK(s) {
			opts = append(opts, YTagStr)
		}
	}
	if ctx == 0 {
		if YCanBlock(s, false) {
			opts = append(opts, YLiteral, YLiteral, YLiteral)
		}
		if YCanBlock(s, true) {
			opts = append(opts, YFolded, YFolded, YFolded)
		}
	}
	n.Style = opts[r.IntN(len(opts))]
	switch n.Style {
	case YPlain:
		n.Text = s
	case YSingle:
		n.Text = yRenderSingle(s)
	case YDouble:
		n.Text = YRenderDouble(r, s)
	case YTagStr:
		n.Text = "!!str " + s
	case YLiteral:
		n.Header, n.Lines = yRenderBlock(r, s, false)
	case YFolded:
		n.Header, n.Lines = yRenderBlock(r, s, true)
	}
	return n
}

// yTagPlainOK: text that is a syntactically unambiguous plain scalar when preceded by `!!str `
// (letters, digits, `_ . + -` only, not starting with `-`): covers true, null, 123, 1e3, 0x10 ...
func yTagPlainOK(s string) bool {
	if len(s) > 40 || s[0] == '-' {
		return false
	}
	for _, c := range s {
		if !(c >= 'A' && c <= 'Z' || c >= 'a' && c <= 'z' || c >= '0' && c <= '9' || c == '_' || c == '.' || c == '+' || c == '-') {
			return false
		}
	}
	return true
}

var c06Ints = []string{"0", "1", "-1", "7", "42", "-5", "255", "65536", "2147483647", "2147483648", "-2147483649", "4294967296",
	"9007199254740991", "9007199254740992", "9007199254740993", "-9007199254740993", "9007199254740995", "1152921504606846977",
	"9223372036854775806", "9223372036854775807", "-9223372036854775807", "-9223372036854775808", "1000000000000000000", "123456789012345678"}

// beyond int64: kept apart (YBigInt) because yq and yaml.v3 leave the exact-integer domain there
var c06BigInts = []string{"9223372036854775808", "18446744073709551615", "12345678901234567890", "18446744073709551616", "-9223372036854775809",
	"123456789012345678901234567890", "100000000000000000000000", "-18446744073709551617", "340282366920938463463374607431768211456"}

// YInt builds an integer scalar inside int64 with a random YAML 1.2 core-schema spelling.
func YInt(r *rand.Rand) *YN {
	var i *big.Int
	switch r.IntN(4) {
	case 0:
		i = big.NewInt(int64(r.IntN(2001) - 1000))
	case 1, 2:
		i, _ = new(big.Int).SetString(c06Ints[r.IntN(len(c06Ints))], 10)
	default:
		i = big.NewInt(r.Int64() >> uint(r.IntN(63)))
		if r.IntN(2) == 0 {
			i.Neg(i)
		}
	}
	return yIntSpell(r, i)
}

// YBigInt builds an integer beyond int64 (decimal; hex only inside uint64).
func YBigInt(r *rand.Rand) *YN {
	var i *big.Int
	if r.IntN(2) == 0 {
		i, _ = new(big.Int).SetString(c06BigInts[r.IntN(len(c06BigInts))], 10)
	} else {
		i = new(big.Int).Lsh(big.NewInt(1), uint(63+r.IntN(40)))
		i.Add(i, big.NewInt(int64(r.IntN(100000))))
		if r.IntN(3) == 0 {
			i.Neg(i)
		}
	}
	n := &YN{Kind: YScalar, Val: ref.BigV(i), Text: i.String(), Spell: "dec"}
	if i.Sign() > 0 && i.BitLen() <= 64 && r.IntN(4) == 0 {
		n.Text, n.Spell = "0x"+strings.ToUpper(i.Text(16)), "hex"
	}
	return n
}

func yIntSpell(r *rand.Rand, i *big.Int) *YN {
	n := &YN{Kind: YScalar, Val: ref.BigV(i), Text: i.String(), Spell: "dec"}
	if i.Sign() >= 0 {
		switch r.IntN(10) {
		case 0:
			n.Text, n.Spell = "+"+i.String(), "plus"
		case 1:
			h := i.Text(16)
			if r.IntN(2) == 0 {
				h = strings.ToUpper(h)
			}
			n.Text, n.Spell = "0x"+h, "hex"
		case 2:
			n.Text, n.Spell = "0o"+i.Text(8), "octal"
		}
	}
	return n
}

var c06Floats = []float64{0.5, 1.5, -2.25, 3.0, 1.0, -1.0, 100.0, 1e3, 1e-3, 0.1, 0.2, 0.30000000000000004, 1e21, 1e20, 1e22, 1e23, 1e-7, 1e-6, 123456.789,
	2.5e10, 1.7976931348623157e308, 5e-324, 2.2250738585072014e-308, 2.225073858507201e-308, 9007199254740993.0, 9.223372036854775807e18, 1.8446744073709552e19,
	4.35, 0.000001, 1e100, -1e-100, 3.141592653589793, 2.718281828459045, 1 / 3.0, 123456789012345680000.0, 0.1 + 0.7, 1e15, 1e16, 1e17, 4503599627370496.5, 0.0}

// YFloat builds a finite float scalar; the ground truth is what strconv.ParseFloat reads from the
// spelling (so excess digits are fine). The text always contains '.', 'e' or 'E'.
func YFloat(r *rand.Rand) *YN {
	var f float64
	switch r.IntN(5) {
	case 0, 1:
		f = c06Floats[r.IntN(len(c06Floats))]
	case 2:
		f = float64(r.IntN(2000)-1000) / 8
	case 3:
		f = math.Float64frombits(r.Uint64())
		if math.IsNaN(f) || math.IsInf(f, 0) {
			f = 1.25
		}
	default:
		f = r.NormFloat64() * math.Pow(10, float64(r.IntN(40)-15))
	}
	if r.IntN(12) == 0 {
		f = math.Copysign(0, -1)
	}
	return YFloatOf(r, f)
}

func YFloatOf(r *rand.Rand, f float64) *YN {
	var t, spell string
	switch r.IntN(8) {
	case 0, 1, 2:
		t, spell = ref.FormatFloat(f), "shortest"
	case 3:
		t, spell = strconv.FormatFloat(f, 'e', -1, 64), "exp"
	case 4:
		t, spell = strconv.FormatFloat(f, 'E', -1, 64), "Exp"
	case 5:
		t, spell = strconv.FormatFloat(f, 'g', 17+r.IntN(4), 64), "excess-digits"
		if !strings.ContainsAny(t, ".e") {
			t += ".0"
		}
	case 6:
		if a := math.Abs(f); a < 1e15 && a > 1e-5 || f == 0 {
			t, spell = strconv.FormatFloat(f, 'f', -1, 64), "fixed"
			if !strings.Contains(t, ".") {
				if r.IntN(2) == 0 {
					t += "."
					spell = "trailing-dot"
				} else {
					t += ".0"
				}
			} else if strings.HasPrefix(t, "0.") && r.IntN(2) == 0 {
				t, spell = t[1:], "leading-dot"
			} else if strings.HasPrefix(t, "-0.") && t != "-0.0" && r.IntN(2) == 0 {
				t, spell = "-"+t[2:], "leading-dot"
			}
		} else {
			t, spell = ref.FormatFloat(f), "shortest"
		}
	default:
		t, spell = strconv.FormatFloat(f, 'e', -1, 64), "exp-noplus"
		t = strings.Replace(t, "e+", "e", 1)
	}
	if f >= 0 && !math.Signbit(f) && r.IntN(10) == 0 {
		t, spell = "+"+t, spell+"+sign"
	}
	g, err := strconv.ParseFloat(t, 64)
	if err != nil || math.IsInf(g, 0) || math.IsNaN(g) {
		t, spell, g = "1.5", "shortest", 1.5
	}
	return &YN{Kind: YScalar, Val: ref.FloatV(g), Text: t, Spell: spell}
}

var c06Nulls = []string{"null", "null", "~", "Null", "NULL", ""}
var c06True = []string{"true", "true", "True", "TRUE"}
var c06False = []string{"false", "false", "False", "FALSE"}

func YNull(r *rand.Rand, allowEmpty bool) *YN {
	t := c06Nulls[r.IntN(len(c06Nulls))]
	if t == "" && !allowEmpty {
		t = "null"
	}
	return &YN{Kind: YScalar, Val: ref.NullV(), Text: t}
}

func YBool(r *rand.Rand) *YN {
	if r.IntN(2) == 0 {
		return &YN{Kind: YScalar, Val: ref.BoolV(true), Text: c06True[r.IntN(len(c06True))]}
	}
	return &YN{Kind: YScalar, Val: ref.BoolV(false), Text: c06False[r.IntN(len(c06False))]}
}

var c06NonFinite = []string{".inf", ".Inf", ".INF", "-.inf", "-.Inf", "-.INF", "+.inf", "+.INF", ".nan", ".NaN", ".NAN"}

// YNonFinite builds an infinity / NaN scalar (sub-oracle c).
func YNonFinite(r *rand.Rand) *YN {
	t := c06NonFinite[r.IntN(len(c06NonFinite))]
	f := math.NaN()
	switch {
	case strings.HasPrefix(t, "-"):
		f = math.Inf(-1)
	case strings.Contains(strings.ToLower(t), "inf"):
		f = math.Inf(1)
	}
	return &YN{Kind: YScalar, Val: ref.FloatV(f), Text: t, Spell: "nonfinite"}
}

// C06Prof tunes the document generator.
type C06Prof struct {
	MaxDepth, MaxWidth int
	ScalarBias         int  // percentage of scalar children below the root
	BigInts            bool // integers beyond int64 may appear
	NonStrKeys         bool // int / bool / null / float keys may appear (texts unique per map)
	NoFlow             bool
}

// yTimestamps: plain scalars that YAML types as timestamps; JSON has no such type, they convert to the string of their
// exact source text (spellings that a re-formatting would change: lower-case t, space separator, short zone, one-digit
// fields, trailing zeros in the fraction)
var yTimestamps = []string{"2001-12-14t21:59:43.10-05:00", "2001-12-14 21:59:43.10 -5", "2002-12-14", "2001-12-14T21:59:43.0Z", "2001-12-14T21:59:43.000Z",
	"2001-1-2 3:04:05", "2001-12-15 2:59:43.10", "2015-02-24T18:19:39.120+00:00", "2015-02-24T18:19:39Z", "2015-02-24t18:19:39.5-00:00", "1999-12-31 23:59:59.999999999 +05:30"}

// yTaggedQuoted: a number / boolean / null written in quotes behind its explicit core tag: the tag decides the type
func yTaggedQuoted(r *rand.Rand) *YN {
	var n *YN
	tag := ""
	switch r.IntN(4) {
	case 0:
		n, tag = YInt(r), "!!int"
		if n.Spell == "octal" || n.Spell == "plus" {
			n.Text, n.Spell = n.Val.JSON(), "dec"
		}
	case 1:
		n, tag = YBool(r), "!!bool"
	case 2:
		n, tag = &YN{Kind: YScalar, Val: ref.NullV(), Text: []string{"", "~", "null"}[r.IntN(3)]}, "!!null"
	default:
		f := []string{"0.25", "1.5", "-2.5", "3.0", "1e3", "100.125"}[r.IntN(6)]
		v, _ := ref.ParseJSON(f)
		n, tag = &YN{Kind: YScalar, Val: v, Text: f, Spell: "dot"}, "!!float"
	}
	q := `"`
	if r.IntN(2) == 0 {
		q = "'"
	}
	n.Text = tag + " " + q + n.Text + q
	n.Spell = "tagged-quoted"
	return n
}

func C06Scalar(r *rand.Rand, p C06Prof, flow bool) *YN {
	switch r.IntN(40) {
	case 38:
		return yTaggedQuoted(r)
	case 39:
		t := yTimestamps[r.IntN(len(yTimestamps))]
		return &YN{Kind: YScalar, Val: ref.StrV(t), Text: t, Spell: "timestamp"}
	}
	switch r.IntN(20) {
	case 0, 1:
		return YNull(r, !flow)
	case 2, 3:
		return YBool(r)
	case 4, 5, 6, 7:
		if p.BigInts && r.IntN(4) == 0 {
			return YBigInt(r)
		}
		return YInt(r)
	case 8, 9, 10:
		return YFloat(r)
	default:
		ctx := 0
		if flow {
			ctx = 1
		}
		return YStr(r, C06Str(r), ctx)
	}
}

var c06Keys = []string{"a", "b", "c", "d", "key", "name", "id", "x y", "k-1", "v.w", "Z"}

func c06Key(r *rand.Rand, p C06Prof) *YN {
	if p.NonStrKeys && r.IntN(2) == 0 {
		switch r.IntN(6) {
		case 0, 1, 2:
			i := big.NewInt(int64(r.IntN(40) - 10))
			if r.IntN(6) == 0 {
				i, _ = new(big.Int).SetString(c06Ints[r.IntN(len(c06Ints))], 10)
			}
			return &YN{Kind: YScalar, Val: ref.BigV(i), Text: i.String(), Spell: "dec"}
		case 3:
			if r.IntN(2) == 0 {
				return &YN{Kind: YScalar, Val: ref.BoolV(true), Text: "true"}
			}
			return &YN{Kind: YScalar, Val: ref.BoolV(false), Text: "false"}
		case 4:
			return &YN{Kind: YScalar, Val: ref.NullV(), Text: "null"}
		default:
			f := float64(r.IntN(200)-100) / 4
			t := ref.FormatFloat(f)
			return &YN{Kind: YScalar, Val: ref.FloatV(f), Text: t, Spell: "shortest"}
		}
	}
	var s string
	if r.IntN(3) == 0 {
		s = C06Str(r)
		if utf8.RuneCountInString(s) > 40 {
			s = string([]rune(s)[:40])
		}
	} else {
		s = c06Keys[r.IntN(len(c06Keys))]
	}
	if s == "<<" { // the literal string key "<<" has its own sub-workload
		s = "<"
	}
	return YStr(r, s, 2)
}

// C06Tree generates a document tree.
func C06Tree(r *rand.Rand, p C06Prof) *YN {
	return c06Tree(r, p, 0, false)
}

func c06Tree(r *rand.Rand, p C06Prof, depth int, flow bool) *YN {
	if depth >= p.MaxDepth || (depth > 0 && r.IntN(100) < p.ScalarBias) {
		return C06Scalar(r, p, flow)
	}
	w := r.IntN(p.MaxWidth + 1)
	if depth == 0 && w == 0 && r.IntN(4) != 0 {
		w = 1 + r.IntN(p.MaxWidth)
	}
	n := &YN{Step: 1 + r.IntN(4), Compact: r.IntN(3) != 0, Dedent: r.IntN(2) == 0}
	n.Flow = flow || w == 0 || (!p.NoFlow && r.IntN(4) == 0)
	if r.IntN(2) == 0 {
		n.Kind = YMap
		seen := map[string]bool{}
		for i := 0; i < w; i++ {
			k := c06Key(r, p)
			if seen[k.KeyText()] {
				continue
			}
			seen[k.KeyText()] = true
			n.Keys = append(n.Keys, k)
			n.Vals = append(n.Vals, c06Tree(r, p, depth+1, n.Flow))
		}
		if len(n.Keys) == 0 {
			n.Flow = true
		}
		return n
	}
	n.Kind = YSeq
	for i := 0; i < w; i++ {
		n.Items = append(n.Items, c06Tree(r, p, depth+1, n.Flow))
	}
	return n
}

// C06Chain: a narrow chain of single-element sequences / single-key maps of the given depth
// around a scalar; style is block, flow, or block switching to flow at some level.
func C06Chain(r *rand.Rand, depth int) *YN {
	leafFlow := r.IntN(3) == 0
	flowFrom := depth + 1 // level at which the chain switches to flow style
	switch r.IntN(3) {
	case 0:
		flowFrom = 0
	case 1:
		flowFrom = r.IntN(depth + 1)
	}
	p := C06Prof{}
	var build func(level int) *YN
	build = func(level int) *YN {
		flow := level >= flowFrom
		if level == depth {
			if r.IntN(4) == 0 {
				return &YN{Kind: []YKind{YSeq, YMap}[r.IntN(2)], Flow: true}
			}
			return C06Scalar(r, p, flow || leafFlow)
		}
		n := &YN{Step: 1 + r.IntN(2), Compact: r.IntN(4) != 0, Dedent: r.IntN(2) == 0, Flow: flow}
		child := build(level + 1)
		if r.IntN(2) == 0 {
			n.Kind = YSeq
			n.Items = []*YN{child}
		} else {
			n.Kind = YMap
			n.Keys = []*YN{YStr(r, c06Keys[r.IntN(4)], 2)}
			n.Vals = []*YN{child}
		}
		return n
	}
	return build(0)
}

// ---------------------------------------------------------------------------------------------
// anchors, aliases, merges

type ySlot struct {
	parent     *YN
	idx        int
	node       *YN
	start, end int
}

func ySlots(root *YN) []ySlot {
	var out []ySlot
	ctr := 0
	var walk func(parent *YN, idx int, n *YN)
	walk = func(parent *YN, idx int, n *YN) {
		me := len(out)
		out = append(out, ySlot{parent: parent, idx: idx, node: n, start: ctr})
		ctr++
		for i, c := range n.Items {
			walk(n, i, c)
		}
		for i, c := range n.Vals {
			ctr++ // the key
			walk(n, i, c)
		}
		out[me].end = ctr
		ctr++
	}
	walk(nil, 0, root)
	return out
}

func yHasAnchor(n *YN) bool {
	found := false
	n.Walk(func(x *YN, _ bool) {
		if x.Anchor != "" {
			found = true
		}
	})
	return found
}

// C06AddAliases rewrites the tree in place: some value positions become aliases of an earlier,
// completely finished node, and some later string-keyed maps get one `<<: *anchor` merge of an
// earlier map with disjoint keys. Returns (aliases, merges) added.
func C06AddAliases(r *rand.Rand, root *YN, merges bool) (int, int) {
	mergeTargets := map[*YN]bool{}
	na, nm, names := 0, 0, 0
	name := func(t *YN) {
		if t.Anchor == "" {
			names++
			t.Anchor = fmt.Sprintf("%s%d", []string{"a", "anc", "x-", "A_"}[r.IntN(4)], names)
		}
	}
	for try := 0; try < 8; try++ {
		sl := ySlots(root)
		if len(sl) < 3 {
			break
		}
		t := sl[1+r.IntN(len(sl)-1)]
		if t.node.Kind == YAlias {
			continue
		}
		if merges && r.IntN(2) == 0 {
			// merge: t must be a map with string keys only and no merge of its own
			if t.node.Kind != YMap || len(t.node.Keys) == 0 || t.node.Merge != nil {
				continue
			}
			ok := true
			tk := map[string]bool{}
			for _, k := range t.node.Keys {
				if k.Val.K != ref.Str {
					ok = false
				}
				tk[k.KeyText()] = true
			}
			if !ok {
				continue
			}
			var cands []ySlot
			for _, m := range sl {
				if m.start <= t.end || m.node.Kind != YMap || m.node.Merge != nil || mergeTargets[m.node] {
					// (a map that others already merge gets no merge of its own: what it would bring in could clash
					// with THEIR own keys, and which side wins there is C13's business, not this check's)
					continue
				}
				disjoint := true
				for _, k := range m.node.Keys {
					if tk[k.KeyText()] || k.Val.K != ref.Str {
						disjoint = false
					}
				}
				if disjoint {
					cands = append(cands, m)
				}
			}
			if len(cands) == 0 {
				continue
			}
			m := cands[r.IntN(len(cands))].node
			name(t.node)
			mergeTargets[t.node] = true
			pos := r.IntN(len(m.Keys) + 1)
			mk := &YN{Kind: YScalar, Val: ref.StrV("<<"), Text: "<<"}
			al := &YN{Kind: YAlias, Target: t.node}
			m.Keys = append(m.Keys[:pos], append([]*YN{mk}, m.Keys[pos:]...)...)
			m.Vals = append(m.Vals[:pos], append([]*YN{al}, m.Vals[pos:]...)...)
			m.Merge = make([]bool, len(m.Keys))
			m.Merge[pos] = true
			nm++
			continue
		}
		var cands []ySlot
		for _, p := range sl {
			if p.start > t.end && p.parent != nil && !p.parent.NoAlias && !yHasAnchor(p.node) && !(p.parent.Merge != nil && p.parent.Merge[p.idx]) {
				cands = append(cands, p)
			}
		}
		if len(cands) == 0 {
			continue
		}
		p := cands[r.IntN(len(cands))]
		name(t.node)
		al := &YN{Kind: YAlias, Target: t.node}
		if p.parent.Kind == YSeq {
			p.parent.Items[p.idx] = al
		} else {
			p.parent.Vals[p.idx] = al
		}
		na++
	}
	return na, nm
}

// C06RedefineAnchors gives a later anchored node the NAME of an earlier one when every alias of the earlier one
// sits before the later definition: an alias binds to the most recent definition of its name before it, so the
// value of the document does not change. Returns the number of names re-used.
func C06RedefineAnchors(r *rand.Rand, root *YN) int {
	pos := map[*YN]int{}
	var order []*YN
	root.Walk(func(n *YN, _ bool) {
		pos[n] = len(order)
		order = append(order, n)
	})
	var anchored []*YN
	lastAlias := map[*YN]int{}
	for i, n := range order {
		if n.Anchor != "" {
			anchored = append(anchored, n)
		}
		if n.Kind == YAlias && n.Target != nil {
			lastAlias[n.Target] = i
		}
	}
	done := 0
	used := map[*YN]bool{}
	for bi := 1; bi < len(anchored); bi++ {
		b := anchored[bi]
		if r.IntN(2) == 0 {
			continue
		}
		for ai := 0; ai < bi; ai++ {
			a := anchored[ai]
			if used[a] || used[b] || a.Anchor == b.Anchor {
				continue
			}
			// b must not lie inside a (an anchor cannot be redefined inside its own value) and a's aliases end before b
			inside := false
			a.Walk(func(x *YN, _ bool) {
				if x == b {
					inside = true
				}
			})
			if inside || lastAlias[a] >= pos[b] {
				continue
			}
			b.Anchor = a.Anchor
			used[a], used[b] = true, true
			done++
			break
		}
	}
	return done
}

// C06AddAliasKeys gives some later maps an extra entry whose KEY is an alias of an earlier, finished
// scalar value (a single-line string or a decimal integer): `name: &n region` ... `{*n : 3}`.
// Returns the number of alias keys added.
func C06AddAliasKeys(r *rand.Rand, root *YN) int {
	added := 0
	for try := 0; try < 4; try++ {
		sl := ySlots(root)
		var srcs []ySlot
		for _, s := range sl[1:] {
			n := s.node
			if n.Kind != YScalar || n.Header != "" || n.Lines != nil || n.Text == "" {
				continue
			}
			if s.parent != nil && s.parent.Merge != nil {
				continue
			}
			if n.Val.K == ref.Str || (n.Val.K == ref.Int && n.Spell == "dec") {
				srcs = append(srcs, s)
			}
		}
		if len(srcs) == 0 {
			return added
		}
		t := srcs[r.IntN(len(srcs))]
		var maps []ySlot
		for _, m := range sl {
			if m.start > t.end && m.node.Kind == YMap && m.node.Merge == nil {
				dup := false
				for _, k := range m.node.Keys {
					if k.KeyText() == t.node.KeyText() {
						dup = true
					}
				}
				if !dup {
					maps = append(maps, m)
				}
			}
		}
		if len(maps) == 0 {
			continue
		}
		m := maps[r.IntN(len(maps))].node
		if t.node.Anchor == "" {
			t.node.Anchor = fmt.Sprintf("k%d", try+1)
		}
		ak := &YN{Kind: YAlias, Target: t.node, Val: t.node.Val, Text: t.node.Text, Spell: t.node.Spell}
		pos := r.IntN(len(m.Keys) + 1)
		val := &YN{Kind: YScalar, Val: ref.IntV(int64(added + 3)), Text: fmt.Sprint(added + 3), Spell: "dec"}
		m.Keys = append(m.Keys[:pos:pos], append([]*YN{ak}, m.Keys[pos:]...)...)
		m.Vals = append(m.Vals[:pos:pos], append([]*YN{val}, m.Vals[pos:]...)...)
		added++
	}
	return added
}

// ---------------------------------------------------------------------------------------------
// emitter

type yEmit struct{ sb strings.Builder }

func (e *yEmit) pad(n int) {
	for i := 0; i < n; i++ {
		e.sb.WriteByte(' ')
	}
}

func yProps(n *YN) string {
	if n.Anchor != "" {
		return "&" + n.Anchor + " "
	}
	return ""
}

// inline returns the one-line form of a node, ok=false when it needs block layout.
func (e *yEmit) inline(n *YN) (string, bool) {
	switch n.Kind {
	case YAlias:
		return "*" + n.Target.Anchor, true
	case YScalar:
		if n.Lines != nil || n.Header != "" {
			return "", false
		}
		if n.Text == "" && n.Anchor != "" {
			return "&" + n.Anchor + " null", true
		}
		return yProps(n) + n.Text, true
	}
	if !n.Flow {
		return "", false
	}
	var sb strings.Builder
	sb.WriteString(yProps(n))
	if n.Kind == YSeq {
		sb.WriteByte('[')
		for i, it := range n.Items {
			if i > 0 {
				sb.WriteString(", ")
			}
			s, _ := e.inline(it)
			if s == "" {
				s = "null"
			}
			sb.WriteString(s)
		}
		sb.WriteByte(']')
		return sb.String(), true
	}
	sb.WriteByte('{')
	for i, k := range n.Keys {
		if i > 0 {
			sb.WriteString(", ")
		}
		ks, _ := e.inline(k)
		if k.Kind == YAlias {
			ks += " " // `*a : v`: a colon right after the name would be part of the name
		}
		vs, _ := e.inline(n.Vals[i])
		if vs == "" {
			vs = "null"
		}
		sb.WriteString(ks + ": " + vs)
	}
	sb.WriteByte('}')
	return sb.String(), true
}

func (e *yEmit) blockScalar(n *YN, ind int) {
	e.sb.WriteString(" " + yProps(n) + n.Header + "\n")
	for _, ln := range n.Lines {
		if ln != "" {
			e.pad(ind)
			e.sb.WriteString(ln)
		}
		e.sb.WriteByte('\n')
	}
}

func yStep(n *YN, min int) int {
	if n.Step < min {
		return min
	}
	return n.Step
}

// value: n is the value of a block mapping entry whose key sits at column ind; "key:" is written.
func (e *yEmit) value(n *YN, ind int) {
	if s, ok := e.inline(n); ok {
		if s == "" {
			e.sb.WriteString("\n")
		} else {
			e.sb.WriteString(" " + s + "\n")
		}
		return
	}
	switch n.Kind {
	case YScalar:
		e.blockScalar(n, ind+yStep(n, 1))
	case YMap:
		e.sb.WriteString(strings.TrimRight(" "+yProps(n), " ") + "\n")
		e.mapEntries(n, ind+yStep(n, 1), false)
	case YSeq:
		e.sb.WriteString(strings.TrimRight(" "+yProps(n), " ") + "\n")
		if n.Dedent {
			e.seqItems(n, ind, false)
		} else {
			e.seqItems(n, ind+yStep(n, 1), false)
		}
	}
}

// item: n is an entry of a block sequence whose dash sits at column ind; "-" is written.
func (e *yEmit) item(n *YN, ind int) {
	if s, ok := e.inline(n); ok {
		if s == "" {
			e.sb.WriteString("\n")
		} else {
			e.sb.WriteString(" " + s + "\n")
		}
		return
	}
	switch n.Kind {
	case YScalar:
		e.blockScalar(n, ind+yStep(n, 2))
	case YMap:
		if n.Compact && n.Anchor == "" {
			e.sb.WriteString(" ")
			e.mapEntries(n, ind+2, true)
		} else {
			e.sb.WriteString(strings.TrimRight(" "+yProps(n), " ") + "\n")
			e.mapEntries(n, ind+yStep(n, 2), false)
		}
	case YSeq:
		if n.Compact && n.Anchor == "" {
			e.sb.WriteString(" ")
			e.seqItems(n, ind+2, true)
		} else {
			e.sb.WriteString(strings.TrimRight(" "+yProps(n), " ") + "\n")
			e.seqItems(n, ind+yStep(n, 2), false)
		}
	}
}

func (e *yEmit) mapEntries(n *YN, ind int, firstInline bool) {
	for i, k := range n.Keys {
		if !(i == 0 && firstInline) {
			e.pad(ind)
		}
		ks, _ := e.inline(k)
		if k.Kind == YAlias {
			ks += " "
		}
		e.sb.WriteString(ks + ":")
		e.value(n.Vals[i], ind)
	}
}

func (e *yEmit) seqItems(n *YN, ind int, firstInline bool) {
	for i, it := range n.Items {
		if !(i == 0 && firstInline) {
			e.pad(ind)
		}
		e.sb.WriteString("-")
		e.item(it, ind)
	}
}

// YEmitDoc prints one document. marker: write a leading `---`.
func YEmitDoc(n *YN, marker bool) string {
	e := &yEmit{}
	if s, ok := e.inline(n); ok {
		if s == "" {
			s = "null"
		}
		if marker {
			e.sb.WriteString("--- ")
		}
		e.sb.WriteString(s + "\n")
		return e.sb.String()
	}
	switch n.Kind {
	case YScalar:
		if marker {
			e.sb.WriteString("---")
			e.blockScalar(n, yStep(n, 2))
		} else {
			// a block scalar may open a document without a marker
			e.sb.WriteString(yProps(n) + n.Header + "\n")
			for _, ln := range n.Lines {
				if ln != "" {
					e.pad(yStep(n, 2))
					e.sb.WriteString(ln)
				}
				e.sb.WriteByte('\n')
			}
		}
	case YMap:
		if marker || n.Anchor != "" {
			e.sb.WriteString(strings.TrimRight("--- "+yProps(n), " ") + "\n")
		}
		e.mapEntries(n, 0, false)
	case YSeq:
		if marker || n.Anchor != "" {
			e.sb.WriteString(strings.TrimRight("--- "+yProps(n), " ") + "\n")
		}
		e.seqItems(n, 0, false)
	}
	return e.sb.String()
}

// YEmitStream prints documents separated by `---`.
func YEmitStream(r *rand.Rand, docs []*YN) string {
	var sb strings.Builder
	for i, d := range docs {
		sb.WriteString(YEmitDoc(d, i > 0 || r.IntN(3) == 0))
	}
	return sb.String()
}

// C06Plant replaces one random scalar value position of the tree by n (the root itself when the
// root is a scalar) and returns the new root.
func C06Plant(r *rand.Rand, root *YN, n *YN) *YN {
	var cands []ySlot
	for _, s := range ySlots(root) {
		if s.parent != nil && s.node.Kind == YScalar {
			cands = append(cands, s)
		}
	}
	if len(cands) == 0 {
		if root.Kind == YScalar {
			return n
		}
		// an empty collection: wrap
		return &YN{Kind: YSeq, Step: 2, Items: []*YN{root, n}}
	}
	s := cands[r.IntN(len(cands))]
	if s.parent.Kind == YSeq {
		s.parent.Items[s.idx] = n
	} else {
		s.parent.Vals[s.idx] = n
	}
	return root
}

// C06PlantEntry adds the entries (keys ks, values vs) to a random block or flow map of the tree
// (wrapping the root into a map when there is none) and returns the new root.
func C06PlantEntry(r *rand.Rand, root *YN, ks, vs []*YN) *YN {
	var maps []*YN
	root.Walk(func(x *YN, isKey bool) {
		if x.Kind == YMap && x.Merge == nil {
			maps = append(maps, x)
		}
	})
	if len(maps) == 0 {
		m := &YN{Kind: YMap, Step: 2, Keys: []*YN{YStr(r, "wrapped", 2)}, Vals: []*YN{root}}
		maps, root = []*YN{m}, m
	}
	m := maps[r.IntN(len(maps))]
	have := map[string]bool{}
	for _, k := range ks {
		have[k.KeyText()] = true
	}
	// drop existing entries whose text equals a planted one: the planted set alone decides collisions
	var nk, nv []*YN
	for i, k := range m.Keys {
		if !have[k.KeyText()] {
			nk, nv = append(nk, k), append(nv, m.Vals[i])
		}
	}
	pos := r.IntN(len(nk) + 1)
	m.Keys = append(append(append([]*YN{}, nk[:pos]...), ks...), nk[pos:]...)
	m.Vals = append(append(append([]*YN{}, nv[:pos]...), vs...), nv[pos:]...)
	if m.Flow {
		for _, v := range vs {
			yForceFlow(v)
		}
	}
	return root
}

func yForceFlow(n *YN) {
	n.Walk(func(x *YN, _ bool) {
		if x.Kind == YSeq || x.Kind == YMap {
			x.Flow = true
		}
	})
}

// C06SmallValue: a small value that is legal in flow context (no block scalars, flow collections).
func C06SmallValue(r *rand.Rand) *YN {
	return c06Tree(r, C06Prof{MaxDepth: 2, MaxWidth: 2, ScalarBias: 60}, 1+r.IntN(2), true)
}

// C06MergeDoc builds a document around one or two anchored base maps (string keys) and several
// later maps that merge one of them with `<<: *base` (single alias, own keys disjoint from the
// base's keys, the merge key first, in the middle or last). Returns the tree and the merge count.
func C06MergeDoc(r *rand.Rand, p C06Prof) (*YN, int) {
	newMap := func(prefix string, flow bool) *YN {
		m := &YN{Kind: YMap, Step: 1 + r.IntN(4), Compact: r.IntN(2) == 0, Dedent: r.IntN(2) == 0, Flow: flow}
		for i, n := 0, 1+r.IntN(4); i < n; i++ {
			k := fmt.Sprintf("%s%d", prefix, i)
			if r.IntN(4) == 0 {
				k = prefix + " " + C06Strings[r.IntN(len(C06Strings))]
				if utf8.RuneCountInString(k) > 30 {
					k = string([]rune(k)[:30])
				}
				dup := false
				for _, o := range m.Keys {
					if o.KeyText() == k {
						dup = true
					}
				}
				if dup {
					continue
				}
			}
			m.Keys = append(m.Keys, YStr(r, k, 2))
			var v *YN
			if flow {
				v = C06SmallValue(r)
			} else {
				v = c06Tree(r, C06Prof{MaxDepth: 3, MaxWidth: 3, ScalarBias: 60}, 1, false)
			}
			m.Vals = append(m.Vals, v)
		}
		return m
	}
	rootFlow := r.IntN(6) == 0
	var bases []*YN
	var items []*YN
	nb := 1 + r.IntN(2)
	for i := 0; i < nb; i++ {
		b := newMap([]string{"base", "B"}[i], rootFlow || r.IntN(3) == 0)
		b.Anchor = fmt.Sprintf("%s%d", []string{"base", "m", "B-"}[r.IntN(3)], i+1)
		bases = append(bases, b)
		items = append(items, b)
		if r.IntN(3) == 0 {
			items = append(items, C06Scalar(r, p, rootFlow))
		}
	}
	merges := 0
	for i, n := 0, 1+r.IntN(3); i < n; i++ {
		d := newMap(fmt.Sprintf("own%d-", i), rootFlow || r.IntN(3) == 0)
		b := bases[r.IntN(len(bases))]
		pos := r.IntN(len(d.Keys) + 1)
		mk := &YN{Kind: YScalar, Val: ref.StrV("<<"), Text: "<<"}
		al := &YN{Kind: YAlias, Target: b}
		d.Keys = append(append(append([]*YN{}, d.Keys[:pos]...), mk), d.Keys[pos:]...)
		d.Vals = append(append(append([]*YN{}, d.Vals[:pos]...), al), d.Vals[pos:]...)
		d.Merge = make([]bool, len(d.Keys))
		d.Merge[pos] = true
		merges++
		var it *YN = d
		if r.IntN(4) == 0 { // nest the merging map one level down
			it = &YN{Kind: YSeq, Step: 2, Compact: r.IntN(2) == 0, Flow: d.Flow, Items: []*YN{C06Scalar(r, p, d.Flow), d}}
		}
		items = append(items, it)
		if r.IntN(3) == 0 {
			items = append(items, &YN{Kind: YAlias, Target: b}) // and a plain alias of the base
		}
	}
	if len(bases) == 2 && r.IntN(2) == 0 {
		// a merge of a merge: X merges the LIST [*a, *b] whose maps share a key, Y merges X
		for i, b := range bases {
			b.Keys = append(b.Keys, YStr(r, "shared", 2))
			b.Vals = append(b.Vals, &YN{Kind: YScalar, Val: ref.IntV(int64(10 * (i + 1))), Text: fmt.Sprint(10 * (i + 1)), Spell: "dec"})
			if r.IntN(2) == 0 {
				b.Keys = append(b.Keys, YStr(r, "shared2", 2))
				b.Vals = append(b.Vals, &YN{Kind: YScalar, Val: ref.StrV(fmt.Sprintf("from%d", i)), Text: fmt.Sprintf("from%d", i)})
			}
		}
		order := []*YN{bases[0], bases[1]}
		if r.IntN(2) == 0 {
			order[0], order[1] = order[1], order[0]
		}
		x := newMap("x-", true)
		x.Anchor = "mx"
		lst := &YN{Kind: YSeq, Flow: true, NoAlias: true, Items: []*YN{{Kind: YAlias, Target: order[0]}, {Kind: YAlias, Target: order[1]}}}
		x.Keys = append([]*YN{{Kind: YScalar, Val: ref.StrV("<<"), Text: "<<"}}, x.Keys...)
		x.Vals = append([]*YN{lst}, x.Vals...)
		x.Merge = make([]bool, len(x.Keys))
		x.Merge[0] = true
		y := newMap("y-", rootFlow || r.IntN(2) == 0)
		pos := r.IntN(len(y.Keys) + 1)
		y.Keys = append(append(append([]*YN{}, y.Keys[:pos]...), &YN{Kind: YScalar, Val: ref.StrV("<<"), Text: "<<"}), y.Keys[pos:]...)
		y.Vals = append(append(append([]*YN{}, y.Vals[:pos]...), &YN{Kind: YAlias, Target: x}), y.Vals[pos:]...)
		y.Merge = make([]bool, len(y.Keys))
		y.Merge[pos] = true
		items = append(items, x, y)
		merges += 2
	}
	root := &YN{Step: 1 + r.IntN(4), Flow: rootFlow, Dedent: r.IntN(2) == 0}
	if r.IntN(2) == 0 {
		root.Kind = YSeq
		root.Items = items
	} else {
		root.Kind = YMap
		for i, it := range items {
			root.Keys = append(root.Keys, YStr(r, fmt.Sprintf("%s%d", []string{"k", "item ", "E"}[r.IntN(3)], i), 2))
			root.Vals = append(root.Vals, it)
		}
	}
	return root, merges
}
