#!/usr/bin/env python3
"""Regenerates /verif/MANIFEST.json from the table below (kept in one place so the manifest is
always schema-valid and in step with the registered checks)."""
import json, os, sys

HERE = os.path.dirname(os.path.dirname(os.path.abspath(__file__)))

# id -> (level category, technique, level text, level note, design ref)
CHECKS = {
 "C01": ("exploration",
  "N-version reference-model monitor: an independent interpreter over a pure value model decides every (expression, document) execution of the real parser/evaluator/printer",
  "Type-directed random programs of the whole core fragment (depth 1-5) are run through the real lexer, parser, operators and JSON printer (library, "
  "plus a sampled real-binary cross-check and a -race slice); the ordered result list and error-vs-success must equal the reference interpreter's. "
  "Recorded deviations are excused only when the result equals the reference with exactly one named quirk switch on. Held on the cases generated. Also: the same program in its minimal-bracket spelling (precedence table, ties to the right) must give the same bytes as the bracketed one; twin literals (1 / \"1\"), integers beyond 2^53, slices over streams of unequal arrays, reduce variables re-using names in scope.",
  "The reference model is calibrated to the docs and, where silent, to the pinned behaviour (detects change there); regions it marks out of domain are skipped and counted; read-traversal side effects are not modelled (mismatch there = inconclusive).",
  "DESIGN.md §5 C01, appendix A"),
 "C02": ("exploration",
  "lens-model monitor: addressed locations and the expected document are computed on a pure value model; the update laws are also checked model-free on yq's own before/after documents",
  "Per case one law (put incl. frame condition and put-get, get-put, put-put, `|=` with a function table back-to-front, `op=`) over generated documents and paths "
  "(keys, +/- indices, splats, multi-key, recursive descent with predicate, nested matches, to-be-created suffixes). Held on the cases generated. Further laws: right-hand sides that only read (through nulls, missing keys, one past the end), merges of two containers of the document on the right-hand side, padding multi-index steps, `=` for several context nodes at once, eval-all over two documents; a quarter of the documents through the JSON decoder.",
  "Alias-free JSON-model documents; type-incompatible prefixes are outside the quantifier; writes over nested matches and non-finite floats are not asserted.",
  "DESIGN.md §5 C02"),
 "C03": ("exploration",
  "reference-model monitor: the selection is resolved to a set of locations on a pure value model and the expected document is the input minus exactly those",
  "Three families (fresh documents, unions of overlapping/identical selections in both orders, containers just derived by sort/reverse/slice/unique/map/+/filter/flatten) "
  "run through the real evaluator; the result must equal the model's deletion. Held on the cases generated. Further families: side computations (sorted copy, variable, `[.m[]]`) before the delete, maps just built by + / *, entries merged in by explode, reads one past the end in the selection; a quarter of the documents through the JSON decoder.",
  "Alias-free JSON-model documents; deleting the root is not generated; the deriving functions are computed by the C01 reference interpreter.",
  "DESIGN.md §5 C03"),
 "C12": ("fault_enumeration",
  "syscall-level fault and crash injection on the real binary (own ptrace injector, cross-checked per case by an strace recording) with an outcome oracle on the file afterwards",
  "For each (expression, file, mode, flags) pair and both TMPDIR placements (same fs / other fs = real EXDEV) the in-place protocol is recorded, then every protocol syscall occurrence "
  "(openat, newfstatat, fchmodat, fchownat, read, write, copy_file_range, fsync, close, renameat, unlinkat...) is made to fail with each plausible errno and the process is SIGKILLed at its entry; "
  "plus every fault inside the copy fallback after an injected rename error. exit 0 => new content and same mode; exit != 0 => old bytes and mode; killed => old or new in full; front matter tail preserved. "
  "Every recorded protocol syscall kind must actually have been hit or the run is inconclusive.",
  "One fault (or rename error + one fault) per run at syscall granularity on Linux x86-64; short writes, a disk that stays full and power loss without fsync are not modelled; trusts ~300 lines of own ptrace code (decoding cross-checked with strace).",
  "DESIGN.md §5 C12"),
 "C14": ("exploration",
  "independent-reader monitor: yq's encodings are read back by readers that share no code with yq (own properties/CSV/XML-tree/TOML/Lua readers and writers, gopher-lua execution, python tomllib cross-validation, stdlib base64/url) and yq's decodings are compared with generator ground truth",
  "19 cells (format x {encode, decode, in-expression pair}) get equal shares; preferences (separators, attribute prefix, content name, indent, unquoted Lua keys, auto-parse) are varied; "
  "a sample goes through the real binary. Deviations are excused only by exact matchers (quirk switches in the own readers). Held on the values generated. Also: multi-document encoder state (stream == documents one by one), in-expression XML encoder vs -o=xml under non-default preferences, non-adjacent repeated XML siblings, control characters before digits in Lua strings.",
  "Per-format representable domains are stated in the evidence assumptions; the TOML encoder (scalars only) and comments on the encode side are not covered.",
  "DESIGN.md §5 C14"),
 "C13": ("exploration",
  "generator-ground-truth monitor: an own resolver of the YAML merge-key rules (cross-checked against yaml.v3's decoding) decides three read routes of the real code",
  "Own-emitted block YAML with anchors on maps/scalars/sequences, aliases in value positions, single and list merges with overlapping keys before/after explicit keys, nested merges; "
  "`-o=json .`, `explode(.)` (value and no alias/anchor/<< left in the YAML) and every leaf path read through the un-exploded document must give the resolved value. "
  "The two recorded precedence deviations are excused only when the observation equals the resolver with exactly that switch. Held on the documents generated. Also: every non-empty container converted on its own (sub-tree conversion), the document after one pass through yq (`!!merge <<`), partial explode of anchor-free sub-trees, anchored scalars inside anchored maps, values spelled like key names.",
  "Map key order is not compared; one merge entry per map; generator/yaml.v3 disagreement = inconclusive.",
  "DESIGN.md §5 C13"),
 "C15": ("exploration",
  "law monitor: permutation, stability, idempotence, antisymmetry, transitivity and input-order independence observed on real sort/compare executions, plus agreement with a reference preorder",
  "Pools mixing null/bool/ints (64-bit extremes, hex/octal)/floats/number-like strings are sorted, pairwise sorted and compared through the real evaluator; "
  "every law is decided on the observed outputs, and order within a class (and null < bool < numbers < strings) against ref.Cmp. Held on the pools generated. Also: several sequences through one sort invocation, decimal integers with leading zeros, min / max next to nulls.",
  "NaN not generated; number-vs-string order is asserted as observed on the pinned tree (the property leaves it open).",
  "DESIGN.md §5 C15"),
 "C16": ("exploration",
  "self-consistency monitor: what path, key, parent, parent|path, keys and to_entries report for every node of `f | ..` is checked against the value f produced",
  "For 18 deriving functions (identity, sort, sort_by, reverse, unique, slices, map, filter, collect, +, pick, omit, with_entries, *, sort_keys, to_entries, write-back forms) every node must satisfy "
  "the local, compositional, global (walk the path from the root, paths distinct) and enumeration relations. The recorded-index deviation is excused only when the reported indices equal "
  "the derivation model's prediction exactly. Held on the cases generated. Also: copy or variable binding followed by a delete from the source, padded writes, entries merged in by explode, JSON- and XML-decoded documents; `parent` is compared by value with the container at the parent's path.",
  "Alias-free JSON-model documents; forms where the value's root is not what f returns (group_by|.[0]) are not generated.",
  "DESIGN.md §5 C16"),
 "C17": ("exploration",
  "real-consumer monitor: yq's @sh / -o=shell text is executed by dash and bash (strace execve watch + canary) and parsed by an independent POSIX word parser",
  "Each generated hostile string / document goes through the real encoder (library and binary); the shells must see exactly one word / exactly the "
  "generated variables with exactly the generated text, execute nothing and create no canary. Held on the strings generated, not a proof over all strings. Boundary code points (U+FFFD, ends of the surrogate gap, BOM, NEL, LS/PS) and all strings through one `@sh` call are part of the workload.",
  "Trusts dash, bash and strace; NUL-free valid UTF-8 only; names the shell treats specially are checked syntactically only.",
  "DESIGN.md §5 C17"),
 "C04": ("exploration",
  "reference-model + algebraic-law monitor: ref.Merge on a pure value model, identities, operand immutability observed in the same evaluation, N-file fold through the real binary",
  "Pairs of nested maps with forced key overlap/kind switches x the 16 flag subsets go through the real `*` operator; result == reference merge, a*{}=={}*a==a*a==a, "
  "`[(.a*.b), .a, .b]` and `(.a*.b) as $m | .` leave the operands as they were, and `yq ea '. as $i ireduce ({}; . * $i)' f1..fN` equals the left fold. Held on the cases generated. Empty-string keys and falsy values (false, 0, \"\") are part of the operand generator.",
  "The region the property leaves open (kind conflict combined with + ? n) is skipped; `+d` together is asserted as observed.",
  "DESIGN.md §5 C04"),
 "C05": ("exploration",
  "independent-reader monitor: yq's output is re-read with yaml.v3's Node API (not yqlib) and compared with the generator's ground truth and with the input's presentation extract; idempotence byte for byte",
  "An own YAML emitter with a presentation plan (scalar styles, flow/block, head/line/foot comments, anchors/aliases, explicit and custom tags, multi-document streams, leading comment blocks, "
  "comment-only and empty documents) feeds `yq .` (library, binary file and stdin); data, per-path presentation table and linearised comment stream must be preserved wherever the bare yaml.v3 "
  "round trip preserves them; yq(yq(x)) == yq(x). Held on the streams generated. Plus a long-line family around the 4096-byte reader boundary.",
  "N-version against yaml.v3's reader: a fault it shares in parse and print is invisible; attributes the bare library loses are counted, not asserted; generator/yaml.v3 disagreement = inconclusive.",
  "DESIGN.md §5 C05"),
 "C06": ("exploration",
  "independent-reader monitor: yq's JSON is scanned and token-walked by Go encoding/json (yq uses goccy/go-json) and compared with generator ground truth; own YAML and JSON writers vary the surface syntax; round trips through the real code",
  "12 sub-workloads: YAML (own emitter: block/flow, all scalar styles and escapes, int/float spellings, anchors/aliases/merges, depth 200, non-string keys) -> -o=json at indent 0..8 with and without unwrapping "
  "(validity, code-point exact strings, exact integers, floats by round trip, key order, layout); JSON -> YAML -> JSON and in-expression to_json/from_json; unrepresentable values (.inf/.nan anywhere) must give an error. "
  "A third of the cases also go through the real binary. Held on the documents generated. Aliases in key position, anchor names defined again, merges of merge lists and sub-tree conversion (`-o=json .path`) are part of the alias workload.",
  "Every generated YAML text is first read by yaml.v3 inside the harness (disagreement = inconclusive); YAML 1.1-only spellings, complex keys, timestamps and binary scalars are not generated.",
  "DESIGN.md §5 C06"),
 "C07": ("exploration",
  "metamorphic presentation monitor: `yq u` and `yq .` are both re-read with yaml.v3 and must agree on every node, comment and separator outside the target set T computed by the harness",
  "11 update kinds (scalar/subtree replace, delete, += on sequences and maps, |= arithmetic/string, key creation, multi-target, recursive selection) at generated locations of commented/styled documents; "
  "rows outside T (kind, value, tag, style, anchor, line comment, order) equal after index re-mapping, untouched comment gaps identical, document count and separators equal. Held on the cases generated. Plus a line-level family on compose-like documents (several merge lines, repeated and pattern-looking keys, complex keys, out-of-order multi-deletes, appends of existing maps whose style differs, reads one past the end).",
  "T's own presentation and the documented restyle of an empty parent are not asserted; targets containing anchors are not generated.",
  "DESIGN.md §5 C07"),
 "C08": ("exploration",
  "metamorphic side-effect monitor: the document printed after evaluating an assignment-free expression in each position the property names must be byte-identical to `yq .`",
  "15 placement templates (variable binding, select, any_c/all_c, sort_by/group_by/unique_by keys, has/contains/pick arguments, both operands of every binary operator in a writable context, map/filter) "
  "x generated read-only expressions (core fragment + ~100 read-only operator snippets) x documents. The auto-creation deviation is excused only when the difference consists solely of auto-creation artefacts. Held on the cases generated. Plus an anchored-documents family (merge flags, comparisons, in-expression encoders, entries over aliases and merge keys) and a raw `(E) as $x | .` template.",
  "In-place operators (assignment family, del, explode, sort_keys, map_values, with, setters) are outside E by the property's wording.",
  "DESIGN.md §5 C08"),
 "C09": ("exploration",
  "metamorphic parser monitor: minimal-parenthesis vs fully parenthesised vs layout-varied spellings of generated ASTs must parse to the same tree and evaluate to the same bytes; broken token lists must be rejected; live precedence table == frozen table (verif hook)",
  "Every ordered pair of binary operators (882-cell matrix) is forced through the real lexer, shunting-yard and tree builder; trees are compared modulo re-association of "
  "associative chains, results on three documents, and single-token mutations (bracket removed/duplicated/swapped, operand removed) must give a parse error. Held on the expressions generated. Plus families for the argument separator of two-argument functions, prefix functions followed by a traversal, interpolations inside string literals and close-before-open brackets.",
  "Nothing is asserted about how equal-precedence different operators group (the property is silent); layout is varied only at token boundaries the lexer rules make unambiguous (listed in the evidence assumptions).",
  "DESIGN.md §5 C09"),
 "C10": ("exploration",
  "metamorphic monitor on the real binary and the in-process evaluators: a multi-file/multi-document run must equal the per-document runs joined by separators; index/filename bookkeeping against the harness's own; history permutations",
  "Generated file sets (0..k documents each, empty files, stdin, comment/separator-laden documents) x ~125 document-local expression templates x {eval, eval-all} x -N; "
  "byte oracle (O1/O5), parsed-stream oracle (O2), [document_index, file_index, filename] (O3), eval-all vs eval and N-in-N-out (O4). Deviations are excused only by exact matchers. Held on the cases generated. Plus: prelude-comment ownership, index keys of sequence elements, files stamped from one template (anchors redefined per document), regular expressions taken from the document, encoder state across documents for every output format.",
  "YAML only; comment layouts that yaml.v3 itself re-attaches across documents are kept out of the generator.",
  "DESIGN.md §5 C10"),
 "C18": ("exploration",
  "Go race detector over concurrent evaluations on separate evaluators + global-state fingerprint (verif hook) after every step + history oracle: every in-process step must equal the one-shot answer of the real binary; 5x repeat of the binary",
  "Three families: repeat (byte-identical stdout/stderr/exit over 5 runs, order-sensitive operators on >=8-key documents), history (120-160 steps re-using parser, parsed trees, decoders, encoders, printers; "
  "each step == fresh-process answer; VerifGlobalFingerprint unchanged), schedules (G in {2,4,16} x GOMAXPROCS in {1,2,16}, start barrier, concurrent parses and evaluations; results == sequential answers; "
  "every race report with yq frames is a violation). Evidence records overlap pairs actually observed. Held on the schedules the Go scheduler produced. Pool entries include document-less inputs (comment-only / empty files) first through a re-used eval-all decoder, interpolated-literal arguments and cold-process race cases.",
  "No report does not mean no race; now/shuffle/env excluded; results depend on this machine's zoneinfo.",
  "DESIGN.md §5 C18"),
 "C19": ("exploration",
  "real-binary monitor with independent per-format readers, an independent small evaluator, strace (no read on fd 0 under -n) and failure injection at (file j, document k)",
  "Six families through the real executable: complete-or-fail with a sentinel document, injected syntax/type/encoder failures at every position, result-shape x output-format sweep for silent drops, "
  "-e truth table, -n never reads stdin (strace + pipe residue), automatic format by first file's extension, flag consistency (-N -r -0 -I). Held on the runs produced. Also: companion flags of -e, malformed spots between the documents of JSON streams and inside CSV/TSV files, a first input without extension / stdin, stdout = /dev/full.",
  "Values are tame (escaping belongs to C06/C14); stdout write failures are not injected.",
  "DESIGN.md §5 C19"),
 "C11": ("exploration",
  "recover()/journal/CPU-watchdog monitor over seeded expression x input x format fuzz workloads, plus a -race/checkptr slice",
  "Every case runs the real parser, decoders, operators, printer and encoders in a child worker; a recovered panic, a fatal runtime "
  "death attributed through the pre-call journal, or a case exceeding its CPU budget is a violation unless it matches a listed "
  "known finding exactly (function + message class). Held on the executions produced, nothing more. Workloads include layout stretching, attribute rewrites followed by use of the node, self-referential anchors, expression strings that eval themselves, repeated keys, texts that are not UTF-8, and a family that drives the real binary with random combinations of its command-line flags.",
  "Trusts the Go runtime's panic/fatal reporting and rusage CPU accounting; crash sites outside the generators' reach are unobserved.",
  "DESIGN.md §5 C11"),
}

# families / routes added in the later rounds of seeded changes (appended to the level text)
LATER = {
 "C01": "any_c / all_c conditions without a verdict, unique over empties, re-binding of a bound variable name. fixed entry / flatten shapes. key lists naming a key twice, subtraction of sequences with alike-spelled scalars.",
 "C02": "compound assignment over several context nodes, setpath reads, the with() spelling of a put, several keys in one bracket. a container reset and written below, right-hand sides of compound assignments that read the context node. `-=` on sequences with alike-spelled scalars of different types. containers created on the fly and used by a later step of the same expression (law created).",
 "C03": "deletes on derived values inside assignments, documents from load() several times per evaluation, deletes from to_entries lists. document-level comments in YAML text, predicates with several answers per element. maps with merge keys and own entries that replace merged ones. containers `+` took over from one operand (family neutralplus), entries with integer / float / boolean / null keys (family typedkeys).",
 "C04": "a right operand shared by several merges, pattern-looking keys, documents nested about 100 levels, operands reaching anchored nodes through aliases. number-looking string keys, JSON decoder variant. block-style YAML operands, sibling keys that extend one another.",
 "C05": "zero-padded integers, explicit null roots behind leading content, block-scalar lines that look like YAML syntax, tagged empty scalars, byte-level variants (no final line feed, CR line breaks). global tags, the document shifted right. folded scalars with several empty lines between paragraphs.",
 "C06": "explicitly tagged quoted scalars, timestamps, byte strings (not UTF-8) through the JSON encoder. NUL separated raw strings.",
 "C07": "updates through variables, merges as assigned values, append-then-delete identities, -= on anchored sequences, the empty-string key, copy-then-delete. 64-bit identifiers, overlapping one-star patterns. positions counted from the end that lie before the start. comments owned by single sequence elements next to added elements (family foot), ownership rule for created nodes.",
 "C08": "nested anchors inside merged entries, sums of differently styled collections, reduce over an object-literal accumulator, the document as second document of a stream, position-stamping operators. user-tagged scalars under conversions. encoders over anchor-free maps with non-string keys or an inline merge. deep comparisons of records with key orders of their own (family records).",
 "C09": "parent(N) followed by a traversal, layouts as expression files through the real binary, exponent literals, union chains in every grouping. comments ending in a backslash. right operands of the same level without brackets (equal levels group to the right).",
 "C10": "root-first contexts in eval-all, JSON streams (family O7), decoder state over several input files (family O8, shared with C14), pick / omit at the root. a constant side file loaded and changed in place for every document.",
 "C11": "ragged records, the context in a union under a binding, bracketed property keys, braces around several nodes. self-evaluation inside operands, a node assigned its own alias. many-star wildcard patterns (time bound). anchor graphs with names defined again and self-containing definitions under a lowered stack limit (family anchor-graph).",
 "C12": "pair classes long_line and symlink_target, the target's directory as a protocol role, a short edit after the fault runs of a slice, stdout on a character device.",
 "C13": "anchors on keys, routes 2c-2e (encode then edit then explode; in-expression encoder; assigned alias read back), reads through operator-made copies in a second document, tagged anchored maps. a large anchored sequence.",
 "C14": "decoder-state family (several input files per format), processing-instruction targets, pre-escaped URI text, pattern-looking keys in properties / TOML, Lua maps keyed \"1\", \"2\". Lua long-bracket strings starting with a line break. TOML table headers in four orders (family toml:headers), binary integers with underscores.",
 "C15": "sort_by over scalars with a non-injective key, capitalised booleans, instant-like strings, cross-class answers of the comparison operators. date-like strings. neighbouring floats. sort_by with up to five keys where a late key decides (family multikey).",
 "C16": "every question asked twice in one evaluation, delete-then-look, integer positions, one value in two places, keys vs to_entries over merge keys, merge into nothing, slice on the way. loaded multi-document files, grandparents by value. re-ordered copies taken on the way. string keys that read as numbers, with key and path steps compared by type.",
 "C17": "alias items under @sh, block scalars and selected inner nodes under -o=shell, non-ASCII digits in keys, every word also as the value of an assignment. re-arranged documents (names after a JSON round trip). flag variants next to -o=shell.",
 "C18": "ragged pivot, row-wise encoders over different headers, Lua globals, one NUL-separating printer across refused results. TOML tables sharing names across inputs. one StringEvaluator across a sequence of evaluations.",
 "C19": "JSON-unencodable values under colour flags, malformed XML among several inputs, in-expression decoders on empty text, failing runs repeated with -i, the -i flag family, beginnings of format names as extensions. -i across file systems. base64 inputs with an incomplete last group. a malformed line at six positions of a TOML file among several (injectTOML).",
}

NOT_YET = "check not built yet in this round (planned, see DESIGN.md §5); nothing is claimed for it"

def main():
    props = [json.loads(l)["id"] for l in open(os.path.join(HERE, "properties.jsonl")) if l.strip()]
    checks, na = [], []
    for pid in props:
        if pid in CHECKS:
            cat, tech, text, note, ref = CHECKS[pid]
            if pid in LATER:
                text = text.rstrip() + " Later rounds added: " + LATER[pid]
            checks.append({
                "property_id": pid,
                "quick_cmd": "./check %s quick" % pid,
                "thorough_cmd": "./check %s thorough" % pid,
                "evidence_file": "/verif/evidence/%s.json" % pid,
                "replay_cmd_template": "./check %s quick --replay {path}" % pid,
                "engine": "vcheck",
                "level_claimed": {"category": cat, "text": text, "design_ref": ref},
                "level_note": note,
                "technique": tech,
            })
        else:
            na.append({"property_id": pid, "reason": NA.get(pid, NOT_YET)})
    hook_commits = []
    try:
        import subprocess
        out = subprocess.run(["git", "-C", "/repo", "log", "--format=%h %s"], capture_output=True, text=True).stdout
        hook_commits = [l.split()[0] for l in out.splitlines() if l.split(" ", 1)[1].startswith("verif hooks")]
    except Exception:
        pass
    m = {
        "version": 1,
        "setup_cmd": "./check build",
        "hooks": {
            "guard": "verif (Go build tag)",
            "enable": "go build -tags verif (the harness imports yqlib through a replace directive pointing at /repo and is always built with -tags verif; the yq binary itself is built without the tag)",
            "baseline_off_cmd": "cd /repo && GOFLAGS=-mod=mod GOPROXY=off GOSUMDB=off GOTOOLCHAIN=local go test -vet=off -count=1 -timeout 25m ./...",
            "source_commits": hook_commits,
            "add_only": True,
        },
        "engines": [
            {"name": "vcheck", "path": "/verif/harness", "serves_properties": [c["property_id"] for c in checks],
             "kind_free_text": "Go harness: parent runner + child workers (plain and -race builds) that drive the real yqlib entry points and the real yq binary on seeded workloads; oracles are reference models, algebraic laws, independent readers and real consumers; strace for syscall fault/crash injection"},
        ],
        "checks": checks,
        "not_applicable": na,
        "notes": "Every check: ./check <id> <quick|thorough>; honours VERIF_SEED; rebuilds yq and the harness from /repo's working tree (VERIF_REPO overrides the tree for mutation trials). Known findings: /verif/known_findings.jsonl.",
    }
    json.dump(m, open(os.path.join(HERE, "MANIFEST.json"), "w"), indent=1)
    print("wrote MANIFEST.json: %d checks, %d not_applicable" % (len(checks), len(na)))

NA = {}

if __name__ == "__main__":
    main()
