#!/usr/bin/env python3
"""tools/design_table.py <table.md>: puts the seeded-change table between the SEEDTABLE markers of DESIGN.md."""
import sys, os, re
here = os.path.dirname(os.path.dirname(os.path.abspath(__file__)))
p = os.path.join(here, "DESIGN.md")
s = open(p).read()
t = open(sys.argv[1]).read().strip()
s2 = re.sub(r"<!-- SEEDTABLE BEGIN -->.*?<!-- SEEDTABLE END -->", "<!-- SEEDTABLE BEGIN -->\n" + t.replace("\\", "\\\\") + "\n<!-- SEEDTABLE END -->", s, flags=re.S)
open(p, "w").write(s2)
