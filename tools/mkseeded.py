#!/usr/bin/env python3
"""tools/mkseeded.py <seed-out dir> <results dir>

Builds /verif/seeded/<id>/ (patch.diff, the demonstration, meta.json) from what the seeding
sub-agents delivered (<seed-out>/<id>/) and from the confirmation runs of tools/seedrun.sh
(<results>/<id>.txt: build, pinned suite, demo on changed/unchanged tree, check result).
A change is kept only when the confirmation run shows: builds, suite green, demo fails on the
changed tree and passes on the unchanged one. Also prints the table of DESIGN.md section 11.
"""
import json, os, re, shutil, sys

HERE = os.path.dirname(os.path.dirname(os.path.abspath(__file__)))
src, resdir = sys.argv[1], sys.argv[2]

# which seeds were NOT caught when first evaluated, and what was added to the check because of them
MISSED = {
    "C01-1": "`contains` with an argument longer than the input",
    "C02-1": "`sharing` law (a value written to two places stays two values)",
    "C02-2": "`overwrite` law (an auto-created intermediate is an ordinary node afterwards)",
    "C03-2": "pattern-looking keys (`*`, `?`) selected by value",
    "C04-2": "empty / null left operands",
    "C07-1": "line-level family (compose-like documents, several merge lines, repeated keys)",
    "C07-2": "line-level family",
    "C12-2": "group-writable and other file modes in the quick tier",
    "C13-2": "anchor redefinition",
    "C14-1": "multi-document encoder-state family (stream == documents one by one)",
    "C15-1": "long inputs (stability of the library sort switches with length)",
    "C16-1": "pair forms `.x + .y`, `.x * .y`",
    "C16-2": "enumeration (keys / to_entries) asserted on every container",
    "C17-1": "typed scalars and YAML spellings of null/bool in -o=shell documents",
    "C18-1": "cold-process race cases (first use of lazily initialised globals)",
    "C18-2": "interpolated-literal arguments in the pool",
    "C19-1": "XML attribute shapes",
    "C19-2": "family G: stdout is /dev/full",
    "C01-3": "slices over streams of arrays of different lengths",
    "C01-4": "type-confused twin literals (1 vs \"1\")",
    "C02-3": "padding multi-index steps `.[5, -2]` under `|=`",
    "C02-4": "`rhsread` law: right-hand sides that read through nulls / past the end",
    "C03-3": "`side` family: sorted copy / variable computed before the delete",
    "C03-4": "`side` family: `[.m[]]` copy stored next to its source",
    "C05-3": "long-line family around the 4096-byte reader boundary",
    "C06-3": "aliases in key position",
    "C07-3": "line family: deletes next to pattern-looking keys",
    "C07-4": "line family: reads one past the end in selections / right-hand sides",
    "C08-3": "anchored-documents family (merge flags over merge keys)",
    "C09-3": "argument-separator family `f(A; B, C)`",
    "C09-4": "close-before-open rejection mutants `L ) op ( R`",
    "C10-3": "prelude-comment ownership in the identity family",
    "C10-4": "index keys of sequence elements (`.[] | key | [di, fi, filename]`)",
    "C11-3": "layout stretching (tabs / newlines inside brackets)",
    "C13-4": "sub-tree conversion route (every non-empty container path)",
    "C15-4": "several sequences through one `sort` invocation",
    "C16-3": "copy-then-delete and variable-then-delete forms",
    "C16-4": "JSON decoder variant",
    "C18-3": "document-less input first through a re-used eval-all decoder",
    "C19-4": "companion flags of `-e` (`-0`, `-N`, `-P` ...)",
    "C01-5": "comparisons of integers that differ but are the same float64 (beyond 2^53)",
    "C02-5": "`rhsmerge` law: `p = (A op B)` with A, B containers of the same document",
    "C03-6": "`mapderived` family: deletes from a map just built by + / * of maps sharing keys",
    "C06-5": "merge of a merge list (`<<: *X`, X: `<<: [*a, *b]`) and sub-tree conversion",
    "C07-6": "line family: appends of existing maps whose style differs from the destination's",
    "C10-5": "files stamped from one template (anchor names redefined per document) + explode templates",
    "C10-6": "regular expressions taken from the document (variable / interpolation)",
    "C11-5": "comments that are nothing but `#`; quick tier 100 k cases",
    "C11-6": "index deletes on empty arrays (`del(.a[0])` twice ...)",
    "C13-6": "second pass: the document as yq itself writes it back (`!!merge <<`)",
    "C14-6": "in-expression XML encoder compared with -o=xml under non-default preferences",
    "C15-6": "decimal integers written with leading zeros next to floats",
    "C16-5": "explode of merge arrangements (lists sharing keys, key before the merge, merge of a merge)",
    "C16-6": "writes beyond the end of a sequence (padding elements)",
    "C17-6": "boundary code points (U+FFFD ...)",
    "C19-5": "malformed spot between the documents of a JSON stream",
    "C01-7": "reduce loop variables re-using a name in scope, read right after the reduce (added after reading the delivery note, before the first evaluation)",
    "C01-8": "minimal-bracket spelling observed next to the bracketed one (added after reading the delivery note, before the first evaluation)",
    "C02-7": "`eaunion` law: eval-all over two documents, left-hand side = the same path in each",
    "C02-8": "JSON decoder variant (null array elements)",
    "C03-7": "JSON decoder variant",
    "C03-8": "`exploded` family: deletes of entries that came in through merge keys",
    "C04-7": "empty-string keys",
    "C06-7": "anchor names defined again (aliases bind to the latest definition)",
    "C07-7": "line family: maps with complex keys inside lists that an append rebuilds",
    "C07-8": "line family: several deletes written out of document order",
    "C08-7": "anchored family: from_entries over entries without a value",
    "C08-8": "anchored family: with_entries bodies reading missing keys through alias values",
    "C09-7": "prefix-function family: `del(.a).b`, `join(..)[1]`",
    "C09-8": "interpolation family: brackets inside the 2nd, 3rd ... interpolation of a literal",
    "C10-8": "family O6: encoder state across documents (every output format, leading comment on the first)",
    "C11-8": "deep equality over aliases after attribute rewrites / on self-containing anchors",
    "C13-8": "partial explode of anchor-free sub-trees must leave a readable document; anchored scalars inside anchored maps",
    "C15-8": "min / max with nulls strewn into a single-class pool",
    "C16-7": "XML-decoded documents",
    "C16-8": "`parent` must be the container found at the parent's path (value compared, not just the path)",
    "C17-8": "all strings through one `@sh` call",
    "C19-7": "malformed CSV / TSV records",
    "C19-8": "first input without an extension / stdin followed by a file with one",
    "C02-9": "`ctxassign` law with compound assignment (`.items[] | .a += n`: every context node updated exactly once)",
    "C02-10": "`rhsread` law: `setpath(P; E // alt)` with E reading through nulls",
    "C03-9": "`side` family form 3: a derived value deleted from inside an assignment / a variable binding",
    "C03-10": "`fresh` family on documents that come out of load(): several loads of one file in one evaluation",
    "C04-9": "right operand shared by several merges of one evaluation (and one level further down)",
    "C05-9": "explicit null root (`~`, `null`) as first document behind a leading marker / comment block",
    "C05-10": "zero-padded integers (0644, 007, -007, 00) in the YAML generator",
    "C06-9": "explicitly tagged scalars written in quotes (`!!int \"8080\"`, `!!bool 'False'`, `!!null \"\"`)",
    "C06-10": "timestamp scalars in spellings a re-formatting would change (the independent reader types them as strings)",
    "C07-9": "line family: a map edited through a variable before it is assigned / appended",
    "C07-10": "line family: a merge whose left operand is a map of the document, as the value of an assignment",
    "C08-9": "anchored family: an anchored node and aliases of it inside an un-anchored entry of a merged map; sub-tree encoders",
    "C09-9": "layout variants through the real binary as an expression FILE (`--from-file`) next to the same text as an argument",
    "C09-10": "argument family: `parent(N)` followed directly by a traversal",
    "C10-9": "eval-all family: contexts that start with the document root and go on with nodes inside it (`(., .[]) | [kind]`)",
    "C12-9": "pair class long_line: a line longer than any reader buffer in front of what the edit changes",
    "C12-10": "pair class symlink_target: the -i target is a symbolic link (faults and kills on every step as for the others)",
    "C13-9": "route 2c: aliases resolved once by an encoder, anchored values edited, then explode (== the same without the first step)",
    "C13-10": "anchors on map keys (never aliased: explode must still strip them)",
    "C14-10": "decoder-state family: several input files per input format == the files read one by one (eval and eval-all)",
    "C15-10": "sort_by over scalars with a key function that is not injective on them",
    "C16-9": "path / key / parent asked twice within ONE evaluation with other questions in between",
    "C16-10": "delete-then-look forms (`del(.y[i]) | .y`); positions in sequences must be integers in `key` and `path`",
    "C17-9": "-o=shell documents with literal / folded block scalars under every chomping indicator",
    "C17-10": "@sh over items that the YAML source spells as aliases of anchored strings",
    "C18-10": "ragged records for pivot (several keys that only later records have) in the expression pool",
    "C19-9": "B-inject: a value the JSON encoder must refuse under -C / -M / -I0 / -P companions",
    "C19-10": "B-inject: one malformed XML file among several XML inputs (any position, eval and eval-all)",
    "C02-12": "`put` law also spelled `with(P; . = v)`",
    "C05-11": "block scalars whose lines look like YAML syntax (`*new: …`, `&x y: z`, `<<: *base`, `--- …`)",
    "C05-12": "explicitly tagged EMPTY scalars (`!!str`, `!unit` with nothing behind) in flow and block context",
    "C07-11": "line family: an element appended and deleted again in one expression (document must be what it was)",
    "C07-12": "line family: `-=` on anchored block / flow sequences with aliases further down",
    "C08-11": "anchored family: sums of collections written in different styles (`.flowseq + .service`, `.items + .flowmap`)",
    "C08-12": "anchored family: reduce over an object-literal accumulator reading below the loop variable, in read-only positions",
    "C09-11": "exponent-notation number literals (dense layout puts them right behind `+` / `-`)",
    "C10-11": "family O7: JSON streams (several values per file) in sequence mode: count, order, positions, eval == eval-all",
    "C11-11": "soup atoms: the context itself in a union under a binding / inside eval",
    "C11-12": "soup atoms: records of unequal width for the row-wise encoders",
    "C12-11": "a short successful edit after the fault runs of a slice, in the same directory and TMPDIR (what failed runs left behind must not leak in)",
    "C12-12": "the directory that holds the target is a protocol role: faults on its open / fsync are enumerated like the others",
    "C13-12": "route 2d: `to_json | from_json` inside the expression == the document's own resolution (anchor names defined again)",
    "C14-12": "XML processing instructions whose target begins with a character of the prefix (`php`, `pipeline`, `_dbg`)",
    "C15-11": "strings that spell instants (RFC 3339, different offsets / fractions) in the sort pools",
    "C15-12": "capitalised boolean spellings (`True`, `FALSE`) in the pools",
    "C16-11": "one expression-built value assigned to two places, then path / key / parent below each",
    "C16-12": "`keys` vs `to_entries` on every map of documents with merge keys, before and after explode",
    "C17-12": "-o=shell of a node SELECTED from inside the document (names are formed from the selected node on)",
    "C18-11": "row-wise encoders (csv / tsv) serving records under different column names in one run and across a history",
    "C18-12": "Lua input that sets globals and returns nothing",
    "C19-11": "B-inject: in-expression decoders (`from_json`, `from_yaml`) on an empty text in document k",
    "C19-12": "B-inject: the failing run repeated with `-i` in eval and eval-all mode",
    "C02-13": "`overwrite` law: several keys in one bracket (`.m[\"ka\", \"zz_b\"] = v`), some there and some not",
    "C03-13": "deletes from the list of entries of a map (`to_entries | del(.[i]) | from_entries`)",
    "C04-13": "family `deep`: documents nested 98-110 levels",
    "C04-14": "family `aliases`: operands that reach anchored nodes through aliases (map values and sequence elements), every flag but n",
    "C05-13": "byte-level variant: the stream without its final line feed (meaning taken from the independent reader)",
    "C05-14": "byte-level variant: CR as line break throughout",
    "C06-14": "byte strings (`@urid`, `@base64d` results that are not UTF-8) through the JSON encoder: output is UTF-8 and JSON",
    "C07-13": "line family: the entry whose key is the empty string, addressed by `[\"\"]`",
    "C07-14": "line family: a copy of a sequence stored, an element of the original deleted, the copy dropped (== the plain delete)",
    "C09-13": "family union-chain: `(., .a), .` == `., (.a, .)` == `., .a, .` with the context / a variable mentioned more than once",
    "C10-13": "family O8: the decoder-state family of C14 (several input files per input format) also run under C10",
    "C10-14": "`pick` / `omit` at the document root: not excused by the derived-root deviation (they keep the result's document)",
    "C11-13": "corpus: property keys with brackets (`a.5] = 1`, `pets[0]`), also through from_props",
    "C12-13": "a fault-free run with stdout on a character device and colours not switched off",
    "C13-13": "route 2e: `.zz = .K | .zz` for alias-valued K reads what `.K` reads",
    "C13-14": "anchored maps that carry a local tag (`&a1 !settings`)",
    "C14-14": "Lua maps whose keys are the strings \"1\", \"2\", ...",
    "C15-14": "answers for number-vs-string pairs (and min / max over mixed pools) must be the order's answers where yq gives any",
    "C16-13": "form merge-into-nothing: `.zz_m * .y`, `null * .y` queried without being assigned",
    "C16-14": "form slice-on-the-way: a slice of the sequence bound / stored / measured before the sequence itself is queried",
    "C17-13": "every @sh word also evaluated as the value of an assignment (`v=WORD`); strings with `:~`, `=~`",
    "C18-13": "family nul-printer: one NUL-separating printer serves a sequence that contains refused results",
    "C19-13": "family F-inplace: -i with and without --front-matter, eval and eval-all: the file holds what the command prints",
    "C19-14": "family E: beginnings of format names (`js`, `ts`, `pro`, `to` ...) as unknown extensions",
    "C01-16": "fixed shapes: what from_entries / with_entries must refuse (an entry without `value`), flatten over empty tails",
    "C02-16": "`overwrite` law: a non-empty container replaced by null, then written below (`.cfg = null | .cfg.name = \"n\"`)",
    "C03-15": "the document as YAML text with document-level comments (after a blank line at the end, before `---`)",
    "C03-16": "predicates with several answers per element (`select(.tags[] | test(..))`), answer counts that sum to the number of candidates",
    "C04-15": "string keys that look like numbers written another way (`007`, `0x1F`, `1_000`, `+5`)",
    "C04-16": "JSON decoder variant (nulls inside sequences under the d flag)",
    "C05-15": "global (URI) tags written verbatim (`!<tag:example.com,2000:foo>`)",
    "C05-16": "byte-level variant: the whole marker-free document shifted four columns to the right",
    "C06-16": "top-level strings printed raw and NUL separated (-0): line feeds and carriage returns at their ends included",
    "C07-15": "line family: identifiers of 64-bit size differing in the last digit, as keys (`+=` of a map) and as elements (`-=`)",
    "C07-16": "line family: a one-star pattern next to a shorter key its prefix and suffix would cover when overlapping",
    "C08-15": "anchored family: scalars with a tag of the user's own under to_string / sort_by(to_string) / select",
    "C09-16": "comments that end in a backslash",
    "C11-15": "corpus: expressions that evaluate themselves inside an operand (`eval(.a) + 1`, `[eval(.c)]`)",
    "C15-16": "date-like strings the pinned tree does not read as instants (`2021-1-10`, `2021-3-04 9:30:00`)",
    "C16-15": "form: the sequence comes out of load() of a multi-document file",
    "C16-16": "`parent | parent` compared by value with the container two steps up the path",
    "C17-16": "-o=shell of a re-arranged document (reversed, sliced, doubled, filtered): names as after a round trip through JSON",
    "C18-15": "TOML entries whose tables share names (array of tables / plain table path) served by one decoder",
    "C19-16": "family F-inplace with the temporary on another file system and results shorter than the file",
    "C01-17": "key lists that name a key twice (`.[\"b\", \"a\", \"b\"]`): one result per listed key",
    "C02-17": "`-=` on sequences whose scalars are spelled alike but differ in type (1 / \"1\", true / \"true\")",
    "C03-17": "maps that merge an anchored map and replace merged entries with entries of their own (family merge_key_maps)",
    "C05-17": "folded scalars with more than one empty line between paragraphs",
    "C07-17": "updates addressed at a position counted from the end that lies before the start",
    "C08-17": "encoders over anchor-free maps with non-string keys / an inline merge map",
    "C10-17": "a constant side file loaded for every document and changed in place (templates load-mutate)",
    "C11-17": "wildcard patterns with 14-21 stars against a long name made of the pattern's literal (family many-star-glob)",
    "C14-17": "Lua long-bracket strings that start with a line break",
    "C15-17": "distinct numbers a relative 1e-13 .. 1e-16 apart",
    "C16-17": "a re-ordered copy (sort, reverse, unique, group_by) taken on the way, then the original's elements asked",
    "C17-17": "flag variants next to -o=shell (-r, --unwrapScalar, -r=false, -N, -I4, -M)",
    "C18-17": "family string-evaluator-history: one StringEvaluator serves a sequence of evaluations",
    "C19-17": "base64 inputs whose last group is incomplete, with a line break (injectBase64)",
    "C02-18": "law `created`: a container an assignment creates on the fly is an ordinary container for `+=`, `*=`, `-=`, `|=` and reads later in the same expression (also against the two-invocation run)",
    "C03-18": "family `neutralplus`: del on a container that `+` produced by taking over one operand (null / empty / missing on the other side, map + map with shared keys), four ways of looking at it",
    "C07-18": "family `foot`: comments owned by single elements (head, line, foot) next to 15 spellings of adding elements; ownership rule for created nodes in the tree family",
    "C08-18": "family `records`: deep comparisons (array subtraction, contains, unique, group_by ...) of records written in key orders of their own; the document must come out untouched and the subtraction's value is modelled",
    "C09-18": "variant `equal-levels-unbracketed`: a right operand of the same level written without brackets (operators of one level group to the right) means the same as the bracketed spelling",
    "C11-18": "family `anchor-graph`: anchor names defined again, self-containing definitions, several aliases through one explode under a lowered stack limit; reachability law for must-fail / must-not-fail",
    "C14-18": "family `toml:headers`: table trees with headers in four orders (a super-table after its sub-tables, empty headers of existing tables last or in the middle)",
    "C15-18": "family `multikey`: sort_by with 1-5 keys where a third or later key decides, eight spellings of the key list, the one-key-at-a-time law",
    "C16-18": "string keys that read as numbers / booleans / null (`\"8080\"`, `\"007\"`, `\"0x1F\"`): key and path steps compared with their type",
    "C19-18": "family `injectTOML`: a malformed line at six positions of a TOML file among several files",
}
REGRESSED = {
    "C11-1": "caught when delivered (4 violation lines), lost when the generator grew (0 of 40 k cases), caught again after reversed slices were made denser and the quick tier raised to 100 k cases",
    "C11-2": "caught when delivered (1 violation line), lost when the generator grew, caught again after header-terminated TOML inputs were added to the corpus",
}
NEUTRALISED = {
    "C02-9": "confirmed when delivered (demo failed on the changed tree, the check caught it: 25 violation lines); the repair 3738a0b in /repo "
             "(a compound assignment over several context nodes runs once per context node) removes the mechanism the change relied on "
             "(the inner assignment evaluated once per context node over a shared live scalar): on the current tree its demo passes",
    "C08-4": "confirmed when delivered (demo failed on the changed tree); the repair cc8e78b in /repo (encodeToString prints a copy) "
             "removes the mechanism the change relied on: on the current tree the change no longer breaks the property and its demo passes",
    "C03-11": "confirmed when delivered (round 6: demo failed on the changed tree, the check caught it: 25 violation lines); the later repair 0e88942 "
              "(del takes the key of a map entry as it is written instead of the parsed last path element) removes the second of the two cooperating sites "
              "the change relied on: on the current tree deletes no longer depend on how getParsedKey types a key, the change no longer breaks C03 and its own "
              "demo passes (it still breaks C16: the same mechanism, delivered against C16 in round 10 as C16-18, is caught there)",
}

rows = []
os.makedirs(os.path.join(HERE, "seeded"), exist_ok=True)
RND = {"1": 1, "2": 1, "3": 2, "4": 2, "5": 3, "6": 3, "7": 4, "8": 4, "9": 5, "10": 5, "11": 6, "12": 6, "13": 7, "14": 7, "15": 8, "16": 8, "17": 9, "18": 10}


def parse_result(name):
    resf = os.path.join(resdir, name + ".txt")
    if not os.path.isfile(resf):
        return None
    txt = open(resf, errors="replace").read()
    m = re.search(r"demo: changed_tree_rc=(\d+) unchanged_tree_rc=(\d+)", txt)
    cm = re.search(r"check=(C\d\d) tier=(\w+) exit=(\d+) violations=(\d+) :: ?(.*)", txt)
    return {
        "txt": txt, "build": "build=ok" in txt, "suite": "suite=green" in txt, "fast": "SEED_FAST" in txt,
        "d1": int(m.group(1)) if m else -1, "d0": int(m.group(2)) if m else -1,
        "chk": cm.group(1) if cm else "?", "tier": cm.group(2) if cm else "?", "rc": int(cm.group(3)) if cm else -1,
        "nv": int(cm.group(4)) if cm else 0, "first": cm.group(5).strip() if cm else "",
    }


names = set(n for n in os.listdir(src) if re.fullmatch(r"C\d\d-\d+", n) and os.path.isfile(os.path.join(src, n, "patch.diff")))
names |= set(n for n in os.listdir(os.path.join(HERE, "seeded")) if re.fullmatch(r"C\d\d-\d+", n))
for name in sorted(names):
    d = os.path.join(src, name)
    out = os.path.join(HERE, "seeded", name)
    r = parse_result(name)
    if not os.path.isfile(os.path.join(d, "patch.diff")):
        # kept in an earlier round (delivery directory gone): the stored meta.json stands; a re-sweep result
        # (SEED_FAST: build + check only) refreshes what the check said
        new = json.load(open(os.path.join(out, "meta.json")))
        if name in NEUTRALISED and not new.get("neutralised_by_repair"):
            new["neutralised_by_repair"] = NEUTRALISED[name]
            new["caught"] = False
            json.dump(new, open(os.path.join(out, "meta.json"), "w"), indent=1, ensure_ascii=False)
        if r and r["build"] and r["chk"] != "?" and not new.get("neutralised_by_repair"):
            new["check"] = {"id": r["chk"], "tier": r["tier"], "exit": r["rc"], "violation_lines": r["nv"], "first_violation": r["first"][:300]}
            new["caught"] = r["rc"] == 1 and r["nv"] > 0
            json.dump(new, open(os.path.join(out, "meta.json"), "w"), indent=1, ensure_ascii=False)
        rows.append(new)
        continue
    if r is None:
        print("no confirmation run for", name, file=sys.stderr)
        continue
    txt, build, suite, d1, d0 = r["txt"], r["build"], r["suite"], r["d1"], r["d0"]
    chk, tier, rc, nv, first = r["chk"], r["tier"], r["rc"], r["nv"], r["first"]
    prevmeta = None
    try:
        prevmeta = json.load(open(os.path.join(out, "meta.json")))
    except (OSError, ValueError):
        pass
    if r["fast"] and prevmeta:
        build_ok = build
        suite, d1, d0 = prevmeta["confirmation"]["pinned_suite_green"], prevmeta["confirmation"]["demo_exit_changed_tree"], prevmeta["confirmation"]["demo_exit_unchanged_tree"]
    confirmed = build and suite and d1 not in (0, -1) and d0 == 0
    neutral = name in NEUTRALISED
    if not confirmed and not neutral:
        print("NOT KEPT (confirmation failed):", name, txt.strip().splitlines()[-3:], file=sys.stderr)
        continue
    meta = json.load(open(os.path.join(d, "meta.json")))
    os.makedirs(out, exist_ok=True)
    for f in os.listdir(d):
        if f in ("patch.diff", "demo.sh") or f.endswith("_test.go"):
            if f == "patch.diff" and os.path.exists(os.path.join(out, "patch.as-delivered.diff")):
                continue  # re-diffed against the current tree by hand (the delivered patch is kept next to it)
            shutil.copy(os.path.join(d, f), os.path.join(out, f))
    rnd = RND[name.split("-")[1]]
    new = {
        "id": name,
        "property": meta.get("property", name[:3]),
        "round": rnd,
        "breaks": meta.get("summary", ""),
        "needs_in_order_to_manifest": meta.get("needs", ""),
        "files_touched": meta.get("files", []),
        "delivered_by": "fresh sub-agent given only the property text and a scratch git worktree of /repo (nothing from /verif)",
        "sub_agent_verification": meta.get("how_verified", ""),
        "what_i_ran": "tools/seedrun.sh <dir> on a scratch copy of /repo in /dev/shm (removed afterwards): patch -p1, go build ./..., "
                      "go test -vet=off -count=1 ./... (pinned suite), the demonstration on the changed copy and on an unchanged copy, "
                      "then ./check %s %s with VERIF_REPO=<changed copy>%s" % (chk, tier, " (race build on)" if name.startswith("C18") else " VERIF_NORACE=1"),
        "confirmation": {"builds": build, "pinned_suite_green": suite, "demo_exit_changed_tree": d1, "demo_exit_unchanged_tree": d0},
        "check": {"id": chk, "tier": tier, "exit": rc, "violation_lines": nv, "first_violation": first[:300]},
        "caught": rc == 1 and nv > 0,
    }
    if name in MISSED:
        new["initially_missed"] = True
        new["check_strengthened_with"] = MISSED[name]
    else:
        new["initially_missed"] = False
    if name in REGRESSED:
        new["detection_history"] = REGRESSED[name]
    if neutral:
        new["neutralised_by_repair"] = NEUTRALISED[name]
        new["caught"] = False
    if prevmeta and "patch_note" in prevmeta:
        new["patch_note"] = prevmeta["patch_note"]  # hand-written remark on a re-diffed patch survives regeneration
    json.dump(new, open(os.path.join(out, "meta.json"), "w"), indent=1, ensure_ascii=False)
    rows.append(new)

print("| seed | breaks (one line) | needs | caught by (quick tier) | first time |")
print("|---|---|---|---|---|")
for r in rows:
    s = re.sub(r"\s+", " ", r["breaks"])[:150]
    n = re.sub(r"\s+", " ", r["needs_in_order_to_manifest"])[:110]
    if r.get("neutralised_by_repair"):
        c = "— (neutralised by a later repair)"
    else:
        c = "%s: %d violation lines" % (r["check"]["id"], r["check"]["violation_lines"]) if r["caught"] else "**MISSED**"
    f = "missed → " + r["check_strengthened_with"] if r["initially_missed"] else "caught"
    print("| %s | %s | %s | %s | %s |" % (r["id"], s.replace("|", "\\|"), n.replace("|", "\\|"), c, f.replace("|", "\\|")))
print("\n%d seeds kept, %d caught, %d initially missed" % (len(rows), sum(r["caught"] for r in rows), sum(r["initially_missed"] for r in rows)), file=sys.stderr)
