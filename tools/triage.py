#!/usr/bin/env python3
"""triage.py dump.jsonl [verdict] — group results by first line of detail"""
import json,sys,collections
f=sys.argv[1]; want=sys.argv[2] if len(sys.argv)>2 else 'violated'
c=collections.Counter(); ex={}
for l in open(f):
    d=json.loads(l)
    if d['verdict']!=want: continue
    k=d.get('detail','').split('\n')[0][:110]
    c[k]+=1; ex.setdefault(k,[]).append(d)
for k,v in c.most_common(40):
    print(v,k)
    for d in ex[k][:2]:
        print('     idx',d['idx'],json.dumps(d.get('case'),ensure_ascii=False)[:400])
        print('     ', d.get('detail','').replace('\n','\n      ')[:700])
