#!/bin/bash
# tools/seedrun.sh <seed-dir> [check ids...]
# Confirms a seeded change (patch.diff + demo) on a scratch copy of /repo and runs the given checks
# (default: the property named in meta.json) against it. Prints one summary line per step.
# Never touches /repo; the scratch copy and its build output are removed afterwards.
set -u
HERE="$(cd "$(dirname "$0")/.." && pwd)"
SD="$(cd "$1" && pwd)"; shift
name="$(basename "$SD")"
export GOFLAGS=-mod=mod GOPROXY=off GOSUMDB=off GOTOOLCHAIN=local
S="/dev/shm/yq-seed-$name"
rm -rf "$S"; rsync -a --exclude .git /repo/ "$S/" || exit 2
prop=$(python3 -c "import json,sys;print(json.load(open('$SD/meta.json'))['property'])" 2>/dev/null || echo "${name%%-*}")
checks=("$@"); [ ${#checks[@]} -eq 0 ] && checks=("$prop")
( cd "$S" && patch -p1 -s < "$SD/patch.diff" ) || { echo "$name APPLY-FAILED"; rm -rf "$S"; exit 3; }
( cd "$S" && go build ./... ) >/dev/null 2>&1 && echo "$name build=ok" || { echo "$name build=FAIL"; rm -rf "$S"; exit 3; }
if [ -n "${SEED_FAST:-}" ]; then echo "$name suite/demo skipped (SEED_FAST: confirmed in an earlier run)"; else
if ( cd "$S" && go test -vet=off -count=1 ./... ) >/tmp/seedrun-$name.test 2>&1; then echo "$name suite=green"; else echo "$name suite=RED (not a valid seed)"; fi
# demo: must fail on the changed tree and pass on the unchanged one
demo_run() { # tree
  if [ -f "$SD/demo.sh" ]; then ( cd "$SD" && timeout 300 bash ./demo.sh "$1" ) >/tmp/seedrun-$name.demo 2>&1; return $?
  elif ls "$SD"/*_test.go >/dev/null 2>&1; then
    t=$(ls "$SD"/*_test.go | head -1); pkg=$(python3 -c "import json;print(json.load(open('$SD/meta.json')).get('demo_pkg','pkg/yqlib'))" 2>/dev/null || echo pkg/yqlib)
    cp "$t" "$1/$pkg/zz_seed_demo_test.go"; ( cd "$1" && timeout 300 go test -vet=off -count=1 -run 'Seed|Demo' ./$pkg/ ) >/tmp/seedrun-$name.demo 2>&1; rc=$?; rm -f "$1/$pkg/zz_seed_demo_test.go"; return $rc
  else return 99; fi
}
demo_run "$S"; d1=$?
P="/dev/shm/yq-seed-$name-pristine"; rm -rf "$P"; rsync -a --exclude .git /repo/ "$P/"
demo_run "$P"; d0=$?
rm -rf "$P"
echo "$name demo: changed_tree_rc=$d1 unchanged_tree_rc=$d0"
fi
for c in "${checks[@]}"; do
  out=$(cd "$HERE" && VERIF_EVIDENCE_DIR="/tmp/seed-evidence/$name" VERIF_REPO="$S" VERIF_NORACE="${SEED_NORACE:-1}" ./check "$c" "${SEED_TIER:-quick}" 2>&1); rc=$?
  nv=$(printf '%s\n' "$out" | grep -c '^VIOLATION')
  first=$(printf '%s\n' "$out" | grep -A2 '^VIOLATION' | sed -n 2p | cut -c1-160)
  echo "$name check=$c tier=${SEED_TIER:-quick} exit=$rc violations=$nv :: $first"
done
tag=$(printf %s "$S" | cksum | cut -d' ' -f1)
rm -rf "$S" "$HERE/.build/$tag"
