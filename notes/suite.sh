#!/bin/bash
# run the repository's pinned suite with the verif guard OFF
export GOFLAGS=-mod=mod GOPROXY=off GOSUMDB=off GOTOOLCHAIN=local
cd "${VERIF_REPO:-/repo}" && go build ./... && go test -vet=off -count=1 -timeout 25m ./... 2>&1 | tail -8
