#!/usr/bin/env python3
"""Sensitivity mutants for the C05 / C07 checks.

usage: c05-c07-mutants.py <name> <scratch-dir>      (scratch-dir = fresh `rsync -a --exclude .git /repo/ <dir>/`)

Each mutant is a realistic presentation bug that keeps `go build ./... && go test ./...` green in the
scratch copy; `VERIF_REPO=<dir> ./check C05 quick` (51-55) resp. `./check C07 quick` (71-75) must print a
VIOLATION line and exit 1.
"""
import sys


def edit(path, old, new):
    s = open(path).read()
    assert old in s, (path, old)
    open(path, 'w').write(s.replace(old, new, 1))


def m51(d):  # C05: the foot comment of quoted/block scalar sequence items is dropped when converting to yaml.Node
    edit(d + '/pkg/yqlib/candidate_node_yaml.go', '''			target.Content[i] = child
''', '''			if o.Kind == SequenceNode && child.Kind == yaml.ScalarNode && child.Style != 0 {
				child.FootComment = ""
			}
			target.Content[i] = child
''')


def m52(d):  # C05: folded scalars are read as literal scalars
    edit(d + '/pkg/yqlib/candidate_node_yaml.go', '''	case yaml.FoldedStyle:
		return FoldedStyle''', '''	case yaml.FoldedStyle:
		return LiteralStyle''')


def m53(d):  # C05: the anchor of a custom-tagged map is not written (aliases dangle)
    edit(d + '/pkg/yqlib/candidate_node_yaml.go', '''		target := &yaml.Node{Kind: targetKind}
		o.copyToYamlNode(target)
''', '''		target := &yaml.Node{Kind: targetKind}
		o.copyToYamlNode(target)
		if o.Kind == MappingNode && o.Tag != "!!map" {
			target.Anchor = ""
		}
''')


def m54(d):  # C05: no '---' in front of a later document that is an empty collection
    edit(d + '/pkg/yqlib/printer.go',
         '''		if (p.previousDocIndex != mappedDoc.GetDocument() || p.previousFileIndex != mappedDoc.GetFileIndex()) && !commentStartsWithSeparator {''',
         '''		if (p.previousDocIndex != mappedDoc.GetDocument() || p.previousFileIndex != mappedDoc.GetFileIndex()) && !commentStartsWithSeparator && (mappedDoc.Kind == ScalarNode || len(mappedDoc.Content) > 0) {''')


def m55(d):  # C05: leading-content replay drops the last comment line of a block that follows a leading '---'
    edit(d + '/pkg/yqlib/decoder_yaml.go', '''		} else {
			return reader, sb.String(), nil
		}
	}
}''', '''		} else {
			res := sb.String()
			lines := strings.Split(strings.TrimSuffix(res, "\\n"), "\\n")
			if n := len(lines); n >= 3 && strings.HasPrefix(res, "$yqDocSeparator$") && commentLineRegEx.MatchString(lines[n-1]) && commentLineRegEx.MatchString(lines[n-2]) {
				res = strings.Join(lines[:n-1], "\\n") + "\\n"
			}
			return reader, res, nil
		}
	}
}''')


def m71(d):  # C07: UpdateAttributesFrom clears the line comment of the edited node's next sibling (via the parent)
    edit(d + '/pkg/yqlib/candidate_node.go', '''	if other.LineComment != "" {
		n.LineComment = other.LineComment
	}
}''', '''	if other.LineComment != "" {
		n.LineComment = other.LineComment
	}
	if n.Parent != nil {
		for i, c := range n.Parent.Content {
			if c == n && i+2 < len(n.Parent.Content) {
				n.Parent.Content[i+2].LineComment = ""
			}
		}
	}
}''')


def m72(d):  # C07: delete re-creates the key that follows the deleted entry without its presentation
    edit(d + '/pkg/yqlib/operator_delete.go', '''		if !shouldDelete {
			newContents = append(newContents, key, value)
		}''', '''		if !shouldDelete {
			newContents = append(newContents, key, value)
		} else if index+2 < len(contents) && node.Style&FlowStyle == 0 {
			contents[index+2] = &CandidateNode{Kind: ScalarNode, Tag: contents[index+2].Tag, Value: contents[index+2].Value, Parent: node, IsMapKey: true}
			contents[index+3].Key = contents[index+2]
		}''')


def m73(d):  # C07: += resets the style of the existing double-quoted elements
    edit(d + '/pkg/yqlib/operator_add.go', '''	target.AddChildren(lhs.Content)
	target.AddChildren(extraNodes)''', '''	target.AddChildren(lhs.Content)
	for _, c := range target.Content {
		if c.Kind == ScalarNode && c.Style == DoubleQuotedStyle {
			c.Style = 0
		}
	}
	target.AddChildren(extraNodes)''')


def m74(d):  # C07: any assignment loses the header comment of a document that starts with '---'
    edit(d + '/pkg/yqlib/candidate_node.go', '''	n.Value = other.Value

	n.UpdateAttributesFrom(other, prefs)
''', '''	n.Value = other.Value

	n.UpdateAttributesFrom(other, prefs)
	for r := n; r != nil; r = r.Parent {
		if r.Parent == nil && r != n && strings.HasPrefix(r.LeadingContent, "$yqDocSeparator$") {
			r.LeadingContent = "$yqDocSeparator$\\n"
		}
	}
''')


def m75(d):  # C07: deleting a sequence item drops the head comment of the items that move up
    edit(d + '/pkg/yqlib/operator_delete.go', '''		if !shouldDelete {
			value.Key.Value = fmt.Sprintf("%v", len(newContents))
			newContents = append(newContents, value)
		}''', '''		if !shouldDelete {
			value.Key.Value = fmt.Sprintf("%v", len(newContents))
			if len(newContents) != index {
				value.HeadComment = ""
			}
			newContents = append(newContents, value)
		}''')


if __name__ == '__main__':
    globals()[sys.argv[1]](sys.argv[2])
